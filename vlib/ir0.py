"""Reader for unoptimised (-O0, mem2reg'd) LLVM 14 IR: functions, blocks, instructions, attributes, struct types.

Used by engine A (event / typestate / effect analyses).  Only structure is kept: calls with direct callees and argument
values, stores, loads, address arithmetic, control flow including exception edges (invoke / landingpad / resume).
"""
import re
import subprocess

from . import common
from .irval import _split_args, sizeof, field_offset  # noqa: F401


class Instr:
    __slots__ = ("op", "dst", "text", "callee", "args", "normal", "unwind", "ptr", "val", "ty", "targets", "cond", "idx", "srcty",
                 "nounwind_site", "arms", "cleanup", "catchall", "argtys")

    def __init__(self, op, dst, text):
        self.op, self.dst, self.text = op, dst, text
        self.callee = self.args = self.normal = self.unwind = self.ptr = self.val = self.ty = None
        self.targets = self.cond = self.idx = self.srcty = self.arms = self.argtys = None
        self.nounwind_site = False
        self.cleanup = self.catchall = False


class Function:
    def __init__(self, name):
        self.name = name
        self.params = []        # (value name, type string, is_sret)
        self.blocks = {}        # label -> [Instr]
        self.order = []
        self.attrs = set()
        self.demangled = name
        self.retty = ""

    @property
    def nounwind(self):
        return "nounwind" in self.attrs


class Module:
    def __init__(self):
        self.funcs = {}         # defined functions
        self.decls = {}         # declared-only functions: name -> attrs
        self.structs = {}
        self.attr_groups = {}

    def is_nounwind(self, name):
        if name in self.funcs:
            return self.funcs[name].nounwind
        if name in self.decls:
            return "nounwind" in self.decls[name]
        return False


DEF = re.compile(r"^define\s+(.*?)@([\w.$]+|\"[^\"]+\")\((.*)\)([^{]*)\{\s*$")
DECL = re.compile(r"^declare\s+(.*?)@([\w.$]+|\"[^\"]+\")\((.*)\)(.*)$")
CALL = re.compile(r"^(?:(?:tail|musttail|notail) )?(call|invoke) (.*?)(@[\w.$]+|@\"[^\"]+\"|%[\w.]+)\((.*)\)(.*)$")


def _lastval(argtext):
    toks = argtext.strip().split()
    return toks[-1] if toks else ""


def parse(text):
    m = Module()
    lines = text.splitlines()
    # join invoke continuation lines
    joined = []
    for l in lines:
        if l.lstrip().startswith("to label") and joined:
            joined[-1] += " " + l.strip()
        elif joined and joined[-1].rstrip().endswith("[") and "switch" in joined[-1]:
            joined[-1] += " " + l.strip()
        elif joined and "switch" in joined[-1] and not joined[-1].rstrip().endswith("]") and "[" in joined[-1]:
            joined[-1] += " " + l.strip()
        elif l.lstrip().startswith(("cleanup", "catch ", "filter ")) and joined:
            joined[-1] += " " + l.strip()
        else:
            joined.append(l)
    i = 0
    cur = None
    label = None
    for l in joined:
        if cur is None:
            mm = re.match(r"^(%[\w.\"$:<>,\- ()*&\[\]]+?) = type (.*)$", l)
            if mm:
                m.structs[mm.group(1).strip()] = mm.group(2).strip()
                continue
            mm = re.match(r"^attributes (#\d+) = \{(.*)\}", l)
            if mm:
                m.attr_groups[mm.group(1)] = set(re.findall(r'"[^"]*"(?:="[^"]*")?|\S+', mm.group(2)))
                continue
            mm = DEF.match(l)
            if mm:
                f = Function(mm.group(2).strip('"'))
                f.retty = mm.group(1)
                for n, part in enumerate(_split_args(mm.group(3))):
                    toks = part.split()
                    pn = toks[-1] if toks and toks[-1].startswith("%") else "%%%d" % n
                    f.params.append((pn, toks[0] if toks else "", "sret(" in part))
                f.attrs = set(re.findall(r"#\d+", mm.group(4))) | set(mm.group(1).split()) | set(mm.group(4).split())
                cur = f
                label = "entry"
                f.blocks[label] = []
                f.order.append(label)
                continue
            mm = DECL.match(l)
            if mm:
                m.decls[mm.group(2).strip('"')] = set(re.findall(r"#\d+", mm.group(4))) | set(mm.group(4).split())
            continue
        if l.strip() == "}":
            m.funcs[cur.name] = cur
            cur = None
            continue
        lm = re.match(r"^([\w.$]+):", l)
        if lm:
            label = "%" + lm.group(1)
            cur.blocks[label] = []
            cur.order.append(label)
            continue
        s = l.split(" ;")[0].strip() if not l.lstrip().startswith(";") else ""
        if not s:
            continue
        # strip trailing metadata
        s = re.sub(r", ![\w.]+ !\d+", "", s)
        ins = parse_instr(s)
        if ins is not None:
            cur.blocks[label].append(ins)
    # resolve attribute groups
    for f in m.funcs.values():
        acc = set()
        for a in list(f.attrs):
            if a in m.attr_groups:
                acc |= m.attr_groups[a]
        f.attrs |= acc
    for n, attrs in m.decls.items():
        acc = set()
        for a in list(attrs):
            if a in m.attr_groups:
                acc |= m.attr_groups[a]
        m.decls[n] = attrs | acc
    m._site_groups = m.attr_groups
    return m


def parse_instr(s):
    mm = re.match(r"^(%[\w.]+) = (.*)$", s)
    dst, rhs = (mm.group(1), mm.group(2)) if mm else (None, s)
    cm = CALL.match(rhs)
    if cm:
        ins = Instr(cm.group(1), dst, s)
        ins.callee = cm.group(3).lstrip("@").strip('"') if cm.group(3).startswith("@") else cm.group(3)
        parts = _split_args(cm.group(4))
        ins.args = [_lastval(a) for a in parts]
        ins.argtys = [a.strip() for a in parts]
        tail = cm.group(5)
        im = re.search(r"to label (%[\w.]+) unwind label (%[\w.]+)", tail)
        if im:
            ins.normal, ins.unwind = im.group(1), im.group(2)
        ins.ty = cm.group(2)
        ins.nounwind_site = tail  # attribute group refs resolved by Module user
        return ins
    op = rhs.split()[0] if rhs.split() else ""
    ins = Instr(op, dst, s)
    if op == "store":
        parts = _split_args(re.sub(r"^store (?:volatile )?", "", rhs))
        if len(parts) >= 2:
            ins.ty, ins.val, ins.ptr = parts[0].rsplit(" ", 1)[0], parts[0].split()[-1], parts[1].split()[-1]
    elif op == "load":
        parts = _split_args(re.sub(r"^load (?:volatile )?", "", rhs))
        if len(parts) >= 2:
            ins.ty, ins.ptr = parts[0].strip(), parts[1].split()[-1]
    elif op == "getelementptr":
        body = re.sub(r"^getelementptr (?:inbounds )?", "", rhs)
        parts = _split_args(body)
        if len(parts) >= 2:
            ins.srcty = parts[0].strip()
            ins.ptr = parts[1].split()[-1]
            ins.idx = [a.split()[-1] for a in parts[2:]]
    elif op in ("bitcast", "ptrtoint", "inttoptr", "sext", "zext", "trunc", "addrspacecast", "freeze"):
        sm = re.match(r"^\w+ (.+?) (\S+) to (.+)$", rhs)
        if sm:
            ins.val, ins.ty = sm.group(2), sm.group(3)
    elif op == "br":
        sm = re.match(r"^br i1 (\S+), label (\S+), label (\S+)$", rhs)
        if sm:
            ins.cond, ins.targets = sm.group(1), [sm.group(2), sm.group(3)]
        else:
            sm = re.match(r"^br label (\S+)$", rhs)
            ins.targets = [sm.group(1)]
    elif op == "switch":
        sm = re.match(r"^switch \w+ (\S+), label (\S+) \[(.*)\]$", rhs)
        if sm:
            ins.cond = sm.group(1)
            ins.targets = [sm.group(2)] + re.findall(r"label (%[\w.]+)", sm.group(3))
    elif op == "ret":
        sm = re.match(r"^ret (.+?) (\S+)$", rhs)
        ins.val = sm.group(2) if sm else None
    elif op == "phi":
        ins.arms = re.findall(r"\[ ([^,]+), ([^\]]+) \]", rhs)
    elif op == "landingpad":
        ins.cleanup = "cleanup" in rhs
        ins.catchall = "catch i8* null" in rhs
    elif op == "icmp":
        sm = re.match(r"^icmp (\w+) (.+?) (\S+), (\S+)$", rhs)
        if sm:
            ins.cond, ins.args = sm.group(1), [sm.group(3), sm.group(4)]
    elif op == "select":
        sm = re.match(r"^select i1 (\S+), (.+?) (\S+), (.+?) (\S+)$", rhs)
        if sm:
            ins.cond, ins.args = sm.group(1), [sm.group(3), sm.group(5)]
    elif op in ("add", "sub", "mul", "sdiv", "udiv", "srem", "urem", "and", "or", "xor", "shl", "ashr", "lshr"):
        sm = re.match(r"^\w+(?: nsw| nuw| exact)* (\w+) (\S+), (\S+)$", rhs)
        if sm:
            ins.ty, ins.args = sm.group(1), [sm.group(2), sm.group(3)]
    elif op == "extractvalue":
        parts = _split_args(re.sub(r"^extractvalue ", "", rhs))
        if len(parts) >= 2:
            ins.val, ins.idx = parts[0].split()[-1], [parts[1].strip()]
    return ins


def demangle_all(mod):
    names = sorted(set(mod.funcs) | set(mod.decls))
    if not names:
        return {}
    r = subprocess.run(["llvm-cxxfilt-14"], input="\n".join(names) + "\n", text=True, stdout=subprocess.PIPE)
    dm = dict(zip(names, r.stdout.splitlines()))
    for n, f in mod.funcs.items():
        f.demangled = dm.get(n, n)
    mod.demangled = dm
    return dm


def emit_o0(src, out, defines=(), include=None):
    cmd = [common.CXX, common.STD, "-I" + (include or common.INCLUDE), "-O0", "-Xclang", "-disable-O0-optnone", "-S", "-emit-llvm",
           "-Wno-everything"] + list(defines) + [src, "-o", out + ".raw"]
    r = common.run(cmd)
    if r.returncode != 0:
        raise common.AnalysisBroken("driver %s does not compile: %s" % (src, r.stderr[:3000]))
    r = common.run(["opt-14", "-S", "-passes=function(mem2reg)", out + ".raw", "-o", out])
    if r.returncode != 0:
        raise common.AnalysisBroken("opt failed on %s: %s" % (src, r.stderr[:1000]))
    with open(out) as fh:
        return fh.read()


def site_nounwind(mod, ins):
    tail = ins.nounwind_site or ""
    if "nounwind" in tail:
        return True
    for g in re.findall(r"#\d+", tail):
        if "nounwind" in mod.attr_groups.get(g, ()):
            return True
    return False

"""Engine L: closed-form value analysis of loop-free, optimised LLVM IR in a polynomial domain.

A function is evaluated on *symbolic* arguments.  Integer and pointer values are polynomials over Q (pointers are byte
addresses); `sdiv` is replaced by the exact quotient when it exists as a polynomial and otherwise becomes a hash-consed
opaque atom; conditions are decided only from the declared *case* (sign classes of symbols); an undecided condition makes
the obligation inconclusive (never a verdict).  No path enumeration, no solver.
"""
import re

from .poly import Poly, sign, POS, NEG, ZERO, NONNEG, NONPOS, NONZERO, ANY


class Inconclusive(Exception):
    pass


class AssertFires(Exception):
    def __init__(self, where):
        Exception.__init__(self, where)
        self.where = where


# ---------------------------------------------------------------------------------------------------------------
# parsing

class Func:
    def __init__(self, name, params, blocks, order):
        self.name, self.params, self.blocks, self.order = name, params, blocks, order


DEF = re.compile(r"^define\s+.*?@([\w.$]+)\((.*?)\)\s*[^{]*\{\s*$")


def parse_module(text):
    funcs = {}
    structs = {}
    raw_lines = text.splitlines()
    lines = []
    in_switch = False
    for l in raw_lines:
        if l.lstrip().startswith("to label") and lines:
            lines[-1] += " " + l.strip()
        elif in_switch:
            lines[-1] += " " + l.strip()
            if l.strip().startswith("]"):
                in_switch = False
        else:
            lines.append(l)
            if re.match(r"^\s*switch .*\[\s*$", l):
                in_switch = True
    i = 0
    while i < len(lines):
        l = lines[i]
        m = re.match(r"^(%[\w.\"$:]+) = type (.*)$", l)
        if m:
            structs[m.group(1)] = m.group(2).strip()
        m = DEF.match(l)
        if m:
            name = m.group(1)
            params = []
            # the parameter list up to the matching parenthesis (attributes such as dereferenceable(72) contain parentheses)
            start = l.index("@" + name + "(") + len(name) + 2
            depth, end = 1, start
            while end < len(l) and depth:
                depth += {"(": 1, ")": -1}.get(l[end], 0)
                end += 1
            for n, part in enumerate(_split_args(l[start:end - 1])):
                toks = part.split()
                pname = toks[-1] if toks and toks[-1].startswith("%") else "%%%d" % n
                params.append((pname, toks[0] if toks else "i64"))
            blocks = {}
            order = []
            cur = "entry"
            blocks[cur] = []
            order.append(cur)
            i += 1
            while i < len(lines) and lines[i].strip() != "}":
                s = lines[i].split(";")[0].rstrip() if not lines[i].lstrip().startswith(";") else ""
                raw = lines[i]
                lm = re.match(r"^([\w.$]+):", raw)
                if lm:
                    cur = "%" + lm.group(1)
                    blocks[cur] = []
                    order.append(cur)
                elif s.strip():
                    blocks[cur].append(s.strip())
                i += 1
            funcs[name] = Func(name, params, blocks, order)
        i += 1
    return funcs, structs


def _split_args(s):
    out, depth, cur = [], 0, ""
    for ch in s:
        if ch in "([{<":
            depth += 1
        elif ch in ")]}>":
            depth -= 1
        if ch == "," and depth == 0:
            out.append(cur.strip())
            cur = ""
        else:
            cur += ch
    if cur.strip():
        out.append(cur.strip())
    return out


# ---------------------------------------------------------------------------------------------------------------
# type sizes (x86-64 data layout)

def sizeof(ty, structs):
    ty = ty.strip()
    if ty.endswith("*"):
        return 8, 8
    if ty in ("double", "i64"):
        return 8, 8
    if ty in ("float", "i32"):
        return 4, 4
    if ty == "i16":
        return 2, 2
    if ty in ("i8", "i1"):
        return 1, 1
    m = re.match(r"^\[(\d+) x (.*)\]$", ty)
    if m:
        s, a = sizeof(m.group(2), structs)
        return int(m.group(1)) * s, a
    if ty.startswith("%"):
        return sizeof(structs[ty], structs)
    m = re.match(r"^(<?)\{(.*)\}>?$", ty)
    if m:
        packed = m.group(1) == "<"
        off, al = 0, 1
        for f in _split_args(m.group(2).strip()):
            s, a = sizeof(f, structs)
            if packed:
                a = 1
            off = (off + a - 1) // a * a
            off += s
            al = max(al, a)
        return (off + al - 1) // al * al, al
    raise Inconclusive("sizeof(%s)" % ty)


def field_offset(ty, idx, structs):
    ty = ty.strip()
    if ty.startswith("%"):
        ty = structs[ty]
    m = re.match(r"^\[(\d+) x (.*)\]$", ty)
    if m:
        s, _ = sizeof(m.group(2), structs)
        return idx * s, m.group(2)
    m = re.match(r"^(<?)\{(.*)\}>?$", ty)
    if m:
        packed = m.group(1) == "<"
        off = 0
        fields = _split_args(m.group(2).strip())
        for k, f in enumerate(fields):
            s, a = sizeof(f, structs)
            if packed:
                a = 1
            off = (off + a - 1) // a * a
            if k == idx:
                return off, f
            off += s
    raise Inconclusive("field_offset(%s,%d)" % (ty, idx))


# ---------------------------------------------------------------------------------------------------------------
# evaluation

class Bool:
    """tri-state truth value; rel = (pred, a, b) when it is the result of an integer comparison; hint = the comparison of an undecided operand when the
    value is a connective of comparisons (what a case split should decide first)"""
    __slots__ = ("v", "why", "rel", "hint")

    def __init__(self, v, why="", rel=None, hint=None):
        self.v, self.why, self.rel = v, why, rel
        self.hint = hint if hint is not None else rel


ITE_REL = {}          # ite[...] atom key -> comparison its condition came from


HUGE = 1 << 62


def decide_cmp(pred, a, b, signs):
    d = a - b
    s = sign(d, signs)
    # no-overflow assumption of the polynomial domain: a symbolic quantity compared with a constant of magnitude >= 2^62 (range checks
    # against numeric_limits) lies strictly inside (-2^62, 2^62)
    if s not in (ZERO, POS, NEG) and pred in ("eq", "ne", "slt", "sle", "sgt", "sge"):
        for x, y, flip in ((a, b, False), (b, a, True)):
            if y.is_const() and abs(y.const_value()) >= HUGE and not x.is_const():
                s = (NEG if y.const_value() > 0 else POS)
                if flip:
                    s = POS if s == NEG else NEG
                break
    if pred in ("eq", "ne") and s not in (ZERO, POS, NEG, NONZERO):
        # opaque handles and addresses of distinct global objects are pairwise different
        distinct = signs.get("__distinct") if isinstance(signs, dict) else None
        if distinct:
            sy = d.symbols()
            if len(sy) == 2 and all(x in distinct or x.startswith("@") or x.startswith("handle[") for x in sy) and d.subst({x: Poly.const(0) for x in sy}).is_zero():
                s = NONZERO
    if pred == "eq":
        if s == ZERO:
            return True
        if s in (POS, NEG, NONZERO):
            return False
    elif pred == "ne":
        if s == ZERO:
            return False
        if s in (POS, NEG, NONZERO):
            return True
    elif pred in ("slt", "ult"):
        if s == NEG:
            return True
        if s in (POS, ZERO, NONNEG):
            return False
    elif pred in ("sle", "ule"):
        if s in (NEG, ZERO, NONPOS):
            return True
        if s == POS:
            return False
    elif pred in ("sgt", "ugt"):
        if s == POS:
            return True
        if s in (NEG, ZERO, NONPOS):
            return False
    elif pred in ("sge", "uge"):
        if s in (POS, ZERO, NONNEG):
            return True
        if s == NEG:
            return False
    return None


_atoms = {}


def atom(kind, *args):
    key = "%s[%s]" % (kind, "|".join(repr(a) for a in args))
    _atoms[key] = (kind, args)
    return Poly.sym(key)


def ite_of(c, x, y):
    """the value `c ? x : y` for an undecided truth value c, remembering the comparison c came from (for case partitioning)"""
    r = atom("ite", c.why, x, y)
    if getattr(c, "hint", None) is not None:
        ITE_REL[next(iter(r.symbols()))] = c.hint
    return r


def sdiv(a, b, signs):
    if b.is_const() and a.is_const() and b.const_value() != 0:
        x, y = a.const_value(), b.const_value()
        if x.denominator == 1 and y.denominator == 1:
            q = abs(int(x)) // abs(int(y))
            return Poly.const(q if (x >= 0) == (y > 0) else -q)
    if a.is_zero():
        return Poly()
    q = a.divexact(b)
    if q is not None and all(c.denominator == 1 for c in q.t.values()):
        return q
    # 0 <= a < b: the quotient is zero
    if not b.is_const() and sign(a, signs) in (POS, NONNEG, ZERO) and sign(b - a, signs) == POS:
        return Poly()
    # Euclidean division visible in the polynomial: a == q*b + r with q >= 0 and 0 <= r < b under the case's sign assumptions
    # (mixed-radix positions d0*z1 + d1 with d1 < z1); then the truncating quotient is q
    if not b.is_const() and len(a.t) <= 40 and sign(b, signs) == POS:
        for key in (None, _revkey):
            qr = a.divrem(b, key)
            if qr is None:
                continue
            for q, r in (qr, (qr[0] - 1, qr[1] + b)):
                if (all(c.denominator == 1 for c in q.t.values()) and all(c.denominator == 1 for c in r.t.values())
                        and sign(q, signs) in (POS, NONNEG, ZERO) and sign(r, signs) in (POS, NONNEG, ZERO) and sign(b - r, signs) == POS):
                    return q
        # ... or with a quotient the sub-case's assumptions speak about (another division by the same divisor): a == q*b + r, 0 <= r < b
        for fq, _c in (signs.get("__facts") or []) if isinstance(signs, dict) else ():
            for sy in fq.symbols():
                if sy.startswith("div[") and sy in _atoms and _atoms[sy][1][1] == b:
                    for q in (Poly.sym(sy), Poly.sym(sy) + 1, Poly.sym(sy) - 1):
                        r = a - q * b
                        if sign(q, signs) in (POS, NONNEG, ZERO) and sign(r, signs) in (POS, NONNEG, ZERO) and sign(b - r, signs) == POS:
                            return q
    res = atom("div", a, b)
    if isinstance(signs, dict) and sign(b, signs) == POS:
        sa = sign(a, signs)
        if sa in (POS, NONNEG, ZERO):
            signs.setdefault(next(iter(res.symbols())), NONNEG)      # truncating quotient of a non-negative by a positive number
        elif sa in (NEG, NONPOS):
            signs.setdefault(next(iter(res.symbols())), NONPOS)
    return res


def _revkey(m):
    return tuple(sorted(((s, e) for s, e in m), reverse=True))


def _is01(p):
    """p is the constant 0 or 1, or a single ite atom with values 1 / 0"""
    if p.is_const():
        return p.const_value() in (0, 1)
    syms = list(p.symbols())
    if len(syms) == 1 and syms[0].startswith("ite[") and (p == Poly.sym(syms[0])) and re.search(r"\|(1\|0|0\|1)\]$", syms[0]):
        return True
    return False


class Evaluator:
    def __init__(self, funcs, structs):
        self.funcs, self.structs = funcs, structs
        self.extcalls = []
        self.record_external = None

    def run(self, fname, args, signs, max_steps=20000):
        """args: list of Poly (one per parameter); returns Poly or Bool"""
        if fname not in self.funcs:
            raise Inconclusive("function %s not in module (not emitted / not inlined)" % fname)
        f = self.funcs[fname]
        if len(args) != len(f.params):
            raise Inconclusive("arity of %s: %d params, %d args" % (fname, len(f.params), len(args)))
        env = {}
        self.extcalls = []
        for (pn, pt), a in zip(f.params, args):
            env[pn] = a
        # unnamed entry block label is %<number of params> when parameters are unnamed
        cur, prev = "entry", None
        entry_label = "%%%d" % len(f.params)
        steps = 0
        while True:
            for ins in f.blocks[cur]:
                steps += 1
                if steps > max_steps:
                    raise Inconclusive("step bound exceeded (loop?) in " + fname)
                r = self.step(ins, env, signs, prev, cur, entry_label, fname)
                if r is None:
                    continue
                kind, val = r
                if kind == "ret":
                    self.stores = env.get("__stores", {})
                    self.mem = env.get("__mem", {})
                    return val
                if kind == "br":
                    prev, cur = cur, val
                    if cur not in f.blocks:
                        raise Inconclusive("unknown label " + cur)
                    break
            else:
                raise Inconclusive("block %s of %s falls through" % (cur, fname))

    # ---- one instruction ---------------------------------------------------------------------------------------
    def val(self, tok, env):
        tok = tok.strip()
        if tok in env:
            return env[tok]
        if re.match(r"^-?\d+$", tok):
            return Poly.const(int(tok))
        if tok == "null":
            return Poly.const(0)
        if tok == "true":
            return Bool(True)
        if tok == "false":
            return Bool(False)
        if re.match(r"^-?\d+\.\d+e[+-]\d+$", tok) or re.match(r"^0x[0-9A-Fa-f]+$", tok):
            return atom("float", tok)
        if tok.startswith("@") and re.match(r"^@[\w.$]+$", tok):
            return Poly.sym(tok)              # address of a global object
        if tok in ("undef", "poison"):
            raise Inconclusive("undef/poison operand")
        if tok.startswith("%"):
            raise Inconclusive("use of value %s that was not computed on the decided path" % tok)
        raise Inconclusive("operand " + tok)

    def step(self, ins, env, signs, prev, cur, entry_label, fname):
        m = re.match(r"^(%[\w.]+) = (.*)$", ins)
        dst, rhs = (m.group(1), m.group(2)) if m else (None, ins)
        rhs = re.sub(r"^(tail |musttail |notail )", "", rhs)
        rhs = re.sub(r"(, ![\w.]+ !\d+)+$", "", rhs)          # trailing metadata attachments (!prof, !nosanitize, ...)
        if "bitcast (" in rhs:
            # constant expression: the address of a global object viewed as another pointer type
            rhs = re.sub(r"bitcast \([^()]*? (@[\w.$]+) to [^()]*?\)", r"\1", rhs)
        op = rhs.split()[0]
        if op in ("add", "sub", "mul", "shl", "ashr", "lshr", "sdiv", "udiv", "srem", "urem", "and", "or", "xor"):
            mm = re.match(r"^\w+((?: nsw| nuw| exact)*) (\w+) (.*)$", rhs)
            flags, ty, rest = mm.group(1), mm.group(2), mm.group(3)
            a_s, b_s = _split_args(rest)
            a, b = self.val(a_s, env), self.val(b_s, env)
            if ty == "i1" or isinstance(a, Bool) or isinstance(b, Bool):
                env[dst] = self.boolop(op, a, b)
                return None
            if op == "add":
                r = a + b
            elif op == "sub":
                r = a - b
            elif op == "mul":
                r = a * b
            elif op == "shl":
                if not b.is_const():
                    raise Inconclusive("shl by non-constant")
                r = a * (2 ** int(b.const_value()))
            elif op == "lshr" and ty == "i64" and b.is_const() and b.const_value() == 63:
                # the sign bit of a 64-bit value (how the optimiser writes x < 0)
                sg = sign(a, signs)
                if sg in (POS, NONNEG, ZERO):
                    r = Poly.const(0)
                elif sg == NEG:
                    r = Poly.const(1)
                else:
                    r = atom("ite", "slt %r , 0" % a, Poly.const(1), Poly.const(0))
            elif op == "ashr" and ty == "i64" and b.is_const() and b.const_value() == 63:
                # the sign mask of a 64-bit value: 0 for x >= 0, -1 for x < 0
                sg = sign(a, signs)
                if sg in (POS, NONNEG, ZERO):
                    r = Poly.const(0)
                elif sg == NEG:
                    r = Poly.const(-1)
                else:
                    r = atom("ite", "slt %r , 0" % a, Poly.const(-1), Poly.const(0))
            elif op in ("ashr", "lshr"):
                if not b.is_const():
                    raise Inconclusive("shr by non-constant")
                d = 2 ** int(b.const_value())
                q = a.divexact(Poly.const(d))
                if "exact" in flags and all((c / 1).denominator == 1 for c in q.t.values()):
                    r = q
                elif all(c.denominator == 1 for c in q.t.values()):
                    r = q
                else:
                    r = atom("div", a, Poly.const(d))
            elif op in ("sdiv", "udiv", "srem", "urem") and (b.is_zero() or (b.is_const() and b.const_value() == 0)):
                raise AssertFires("integer division by zero in %s (block %s): %s" % (fname, cur, rhs[:80]))
            elif op in ("sdiv", "udiv"):
                r = sdiv(a, b, signs)
            elif op in ("srem", "urem"):
                r = a - b * sdiv(a, b, signs)
            elif op == "xor" and b.is_const() and b.const_value() == -1:
                r = -a - 1                        # bitwise complement in two's complement
            elif op == "xor" and b.is_const() and b.const_value() == 1 and _is01(a):
                r = Poly.const(1) - a            # logical negation of a value known to be 0 or 1 (a widened comparison result)
            elif op == "xor" and a.is_const() and a.const_value() == 1 and _is01(b):
                r = Poly.const(1) - b
            elif op == "and" and b.is_const() and b.const_value() == 1 and (a.divexact(Poly.const(2)) is not None and all(c.denominator == 1 for c in a.divexact(Poly.const(2)).t.values())):
                r = Poly()                       # the low bit of an even number
            elif op == "and" and b.is_const() and b.const_value() == 1 and sign(a, signs) in (POS, NONNEG, ZERO):
                r = a - sdiv(a, Poly.const(2), signs) * 2          # the low bit of a non-negative number: its remainder modulo 2
            elif op == "and" and b.is_const() and b.const_value() == -2 and (a.divexact(Poly.const(2)) is not None and all(c.denominator == 1 for c in a.divexact(Poly.const(2)).t.values())):
                r = a                            # clearing the low bit of an even number
            elif op == "and" and b.is_const() and b.const_value() == -2 and sign(a, signs) in (POS, NONNEG, ZERO):
                r = sdiv(a, Poly.const(2), signs) * 2
            elif op == "or" and (a.is_zero() or b.is_zero()):
                r = b if a.is_zero() else a
            elif op == "or":
                # bitwise or of two integers: all that is known about it here is when it is zero (both operands are), which is how a
                # conjunction of zero tests is written ((x | y) == 0)
                r = atom("bitor", a, b)
            else:
                raise Inconclusive("integer %s" % op)
            env[dst] = r
            return None
        if op == "icmp":
            mm = re.match(r"^icmp (\w+) (.+?) (\S+), (\S+?)(?:, !\w+ !\d+)*$", rhs)
            if not mm:
                raise Inconclusive("unparsed comparison: " + rhs[:80])
            pred, ty, a_s, b_s = mm.groups()
            a, b = self.val(a_s, env), self.val(b_s, env)
            zt = self.bitor_zero_test(pred, a, b, signs)
            if zt is not None:
                env[dst] = zt
                return None
            env[dst] = Bool(decide_cmp(pred, a, b, signs), "%s %r , %r" % (pred, a, b), (pred, a, b) if isinstance(a, Poly) and isinstance(b, Poly) else None)
            return None
        if op == "select":
            mm = re.match(r"^select i1 (\S+), (.+?) (\S+), (.+?) (\S+)$", rhs)
            c = self.val(mm.group(1), env)
            if c.v is None:
                # equal arms need no decision
                try:
                    x, y = self.val(mm.group(3), env), self.val(mm.group(5), env)
                    if isinstance(x, Poly) and isinstance(y, Poly) and x == y:
                        env[dst] = x
                        return None
                except Inconclusive:
                    pass
                x, y = self.val(mm.group(3), env), self.val(mm.group(5), env)
                if isinstance(x, Bool) or isinstance(y, Bool):
                    env[dst] = Bool(None, "select(%s)" % c.why, hint=c.hint)
                else:
                    # select on x == c between two forms that coincide when x == c (a special case written out for speed): the general form
                    same = None
                    if c.rel is not None and c.rel[0] in ("eq", "ne") and isinstance(x, Poly) and isinstance(y, Poly):
                        d = c.rel[1] - c.rel[2]
                        for m_, co in d.t.items():
                            if len(m_) == 1 and m_[0][1] == 1 and abs(co) == 1:          # d = +-sym + rest  =>  sym = -+rest
                                sym = m_[0][0]
                                rest = d - Poly({m_: co})
                                val_ = rest * (-1 if co == 1 else 1)
                                if sym in val_.symbols():
                                    continue
                                on_eq, other = (x, y) if c.rel[0] == "eq" else (y, x)
                                try:
                                    if other.subst({sym: val_}) == on_eq.subst({sym: val_}):
                                        same = other
                                except Exception:
                                    pass
                                break
                    if same is not None:
                        env[dst] = same
                    else:
                        env[dst] = atom("ite", c.why, x, y)
                        if c.hint is not None:
                            ITE_REL[next(iter(env[dst].symbols()))] = c.hint
                return None
            env[dst] = self.val(mm.group(3) if c.v else mm.group(5), env)
            return None
        if op == "phi":
            mm = re.match(r"^phi (.+?) (\[.*)$", rhs)
            for arm in re.findall(r"\[ ([^,]+), ([^\]]+) \]", mm.group(2)):
                lab = arm[1].strip()
                if lab == prev or (prev == "entry" and lab == entry_label):
                    env[dst] = self.val(arm[0], env)
                    return None
            raise Inconclusive("phi without arm for predecessor %s" % prev)
        if op == "br":
            mm = re.match(r"^br i1 (\S+), label (\S+), label (\S+)$", rhs)
            if mm:
                c = self.val(mm.group(1), env)
                if c.v is None:
                    e_ = Inconclusive("branch on undecided condition (%s) in %s" % (c.why, fname))
                    e_.rel = c.hint
                    raise e_
                return ("br", mm.group(2) if c.v else mm.group(3))
            mm = re.match(r"^br label (\S+)$", rhs)
            return ("br", mm.group(1))
        if op == "switch":
            mm = re.match(r"^switch (\w+) (\S+), label (\S+) \[(.*)\]$", rhs)
            v = self.val(mm.group(2), env)
            if not isinstance(v, Poly):
                raise Inconclusive("switch on a value that is not fixed by the case (%r) in %s" % (v, fname))
            if not v.is_const():
                # every listed constant is excluded by the case's sign assumptions: the default label is taken
                for cm in re.finditer(r"\w+ (-?\d+), label (\S+)", mm.group(4)):
                    if sign(v - int(cm.group(1)), signs) not in (POS, NEG, NONZERO):
                        e_ = Inconclusive("switch on a value that is not fixed by the case (%r) in %s" % (v, fname))
                        e_.rel = ("eq", v, Poly.const(int(cm.group(1))))
                        raise e_
                return ("br", mm.group(3))
            for cm in re.finditer(r"\w+ (-?\d+), label (\S+)", mm.group(4)):
                if int(cm.group(1)) == int(v.const_value()):
                    return ("br", cm.group(2))
            return ("br", mm.group(3))
        if op == "ret":
            mm = re.match(r"^ret (.+?) (\S+)$", rhs)
            if not mm:
                return ("ret", None)
            return ("ret", self.val(mm.group(2), env))
        if op == "getelementptr":
            mm = re.match(r"^getelementptr (?:inbounds )?(.+?), (.+?)\* (\S+?), (.*)$", rhs)
            ty, _, p_s, idxs = mm.groups()
            p = self.val(p_s, env)
            parts = _split_args(idxs)
            first = True
            curty = ty
            for part in parts:
                ity, iv = part.split()[-2], part.split()[-1]
                v = self.val(iv, env)
                if first:
                    s, _a = sizeof(curty, self.structs)
                    p = p + v * s
                    first = False
                else:
                    if not v.is_const():
                        s_m = re.match(r"^\[(\d+) x (.*)\]$", curty if not curty.startswith("%") else self.structs[curty])
                        if not s_m:
                            raise Inconclusive("variable struct index")
                        s, _a = sizeof(s_m.group(2), self.structs)
                        p = p + v * s
                        curty = s_m.group(2)
                    else:
                        off, curty = field_offset(curty, int(v.const_value()), self.structs)
                        p = p + off
            env[dst] = p
            return None
        if op in ("ptrtoint", "inttoptr", "bitcast", "sext", "trunc", "freeze", "addrspacecast"):
            mm = re.match(r"^\w+ (.+?) (\S+) to (.+)$", rhs) or re.match(r"^freeze (.+?) (\S+)$", rhs)
            v = self.val(mm.group(2), env)
            if isinstance(v, Bool) and op == "sext":
                v = ite_of(v, Poly.const(-1), Poly.const(0)) if v.v is None else Poly.const(-1 if v.v else 0)
            env[dst] = v
            return None
        if op == "zext":
            mm = re.match(r"^zext (.+?) (\S+) to (.+)$", rhs)
            v = self.val(mm.group(2), env)
            if isinstance(v, Bool):
                v = ite_of(v, Poly.const(1), Poly.const(0)) if v.v is None else Poly.const(1 if v.v else 0)
            env[dst] = v
            return None
        if op == "invoke":
            mm = re.match(r"^invoke .*?@([\w.$]+)\((.*)\)\s*(?:#\d+)?\s*to label (\S+) unwind label (\S+)", rhs)
            if not mm:
                raise Inconclusive("indirect invoke")
            r = self.step((dst + " = " if dst else "") + "call void @%s(%s)" % (mm.group(1), mm.group(2)), env, signs, prev, cur, entry_label, fname)
            return ("br", mm.group(3))
        if op == "call":
            mm = re.match(r"^call .*?@([\w.$]+)\((.*)\)", rhs)
            if not mm:
                raise Inconclusive("indirect call")
            callee, argstr = mm.group(1), mm.group(2)
            argv = [a.split()[-1] for a in _split_args(argstr)]
            if callee.startswith("llvm.smin") or callee.startswith("llvm.smax") or callee.startswith("llvm.umin") or callee.startswith("llvm.umax"):
                a, b = self.val(argv[0], env), self.val(argv[1], env)
                le = decide_cmp("sle", a, b, signs)
                if le is None:
                    if a == b:
                        le = True
                    else:
                        raise Inconclusive("min/max of %r and %r undecided" % (a, b))
                small, big = (a, b) if le else (b, a)
                env[dst] = small if "min" in callee else big
                return None
            if callee.startswith("llvm.abs"):
                a = self.val(argv[0], env)
                s = sign(a, signs)
                if s in (POS, NONNEG, ZERO):
                    env[dst] = a
                elif s in (NEG, NONPOS):
                    env[dst] = -a
                else:
                    raise Inconclusive("abs of %r undecided" % a)
                return None
            if callee.startswith("llvm.memset"):
                p = self.val(argv[0], env)
                v, n = self.val(argv[1], env), self.val(argv[2], env)
                off = p - Poly.sym("out")
                if any(sy.startswith("stack") for sy in p.symbols()):
                    # zero-fill of a stack temporary (usually a floating point scalar passed by address): the words read as zero
                    if v.is_const() and v.const_value() == 0 and n.is_const() and int(n.const_value()) % 8 == 0 and int(n.const_value()) <= 256:
                        for k in range(0, int(n.const_value()), 8):
                            env.setdefault("__stack", {})[p + k] = Poly.const(0)
                    return None
                if not (off.is_const() and v.is_const() and v.const_value() == 0 and n.is_const()):
                    raise Inconclusive("memset that is not a constant zero fill of the out array")
                o, n = int(off.const_value()), int(n.const_value())
                if o % 8 or n % 8:
                    raise Inconclusive("unaligned memset")
                for k in range(o, o + n, 8):
                    env.setdefault("__stores", {})[k] = Poly.const(0)
                return None
            if callee.startswith("llvm.assume") or callee.startswith("llvm.lifetime") or callee.startswith("llvm.dbg") or callee.startswith("llvm.experimental.noalias"):
                return None
            if callee.startswith("llvm.ubsantrap") or callee == "llvm.trap":
                raise AssertFires("a compiler-inserted check traps (%s) in %s (block %s): division by zero" % (callee, fname, cur))
            if callee in ("__assert_fail", "abort", "_ZSt9terminatev", "__cxa_throw", "_ZSt20__throw_length_errorPKc"):
                raise AssertFires("%s reached in %s (block %s): %s" % (callee, fname, cur, argstr[:120]))
            if callee in ("__cxa_allocate_exception", "__cxa_throw", "_ZSt20__throw_logic_errorPKc"):
                raise AssertFires("exception thrown in %s (block %s)" % (fname, cur))
            if callee not in self.funcs and getattr(self, "record_external", None) and self.record_external(callee):
                vals = []
                for a in _split_args(argstr):
                    try:
                        vals.append(self.val(a.split()[-1], env))
                    except Inconclusive:
                        vals.append(None)
                # by-reference arguments: the value last stored into a stack temporary (None when the argument is not such a slot)
                stack = env.get("__stack", {})
                derefs = [stack.get(v) if isinstance(v, Poly) else None for v in vals]
                self.extcalls.append((callee, vals, derefs, dict(stack)))
                model = getattr(self, "external_model", None)
                if model is not None:
                    # effects of the external routine on stack temporaries passed by address (output parameters): [(address, value)]
                    for ptr, value in model(callee, vals, derefs, len(self.extcalls)) or []:
                        env.setdefault("__stack", {})[ptr] = value
                if dst:
                    env[dst] = atom("ext", callee, len(self.extcalls))
                return None
            raise Inconclusive("call to %s not inlined in %s" % (callee, fname))
        if op in ("insertelement", "extractelement", "shufflevector", "fmul", "fadd", "fsub", "fdiv", "fpext", "fptrunc", "sitofp", "uitofp", "fcmp") and dst:
            # floating point / vector data: opaque (not part of the index algebra)
            ops_ = []
            for tok in re.findall(r"%[\w.]+", rhs):
                v = env.get(tok)
                ops_.append(repr(v) if v is not None else tok)
            env[dst] = atom("fp", op, re.sub(r"%[\w.]+", "_", rhs)[:80], tuple(ops_))
            return None
        if op == "fneg":
            mm = re.match(r"^fneg (?:[a-z]+ )*(\w+) (\S+)$", rhs)
            env[dst] = atom("fneg", self.val(mm.group(2), env))
            return None
        if op == "extractvalue":
            mm = re.match(r"^extractvalue (.+) (%[\w.]+), (\d+)$", rhs)
            if mm:
                agg = self.val(mm.group(2), env)
                env[dst] = atom("xv", agg, int(mm.group(3)))       # a field of an opaque aggregate (result of an external routine)
                return None
        if op == "alloca":
            self.nstack = getattr(self, "nstack", 0) + 1
            env[dst] = Poly.sym("stack%d" % self.nstack)
            return None
        if op == "store" and re.match(r"^store (?:volatile )?i(?:8|16|32) ", rhs):
            # small integers passed by address to an external routine (Fortran-style flags): remembered only when the slot is a stack temporary
            mm = re.match(r"^store (?:volatile )?(.+?) (\S+), (.+?)\* (\S+?)(?:,.*)?$", rhs)
            try:
                v, p = self.val(mm.group(2), env), self.val(mm.group(4), env)
            except Inconclusive:
                return None
            if isinstance(v, Poly) and isinstance(p, Poly) and any(sy.startswith("stack") for sy in p.symbols()):
                env.setdefault("__stack", {})[p] = v
            return None
        if op == "store" and re.match(r"^store (?:volatile )?[^,]*\* ", rhs):
            # a pointer value (an opaque handle) stored into a stack temporary
            mm = re.match(r"^store (?:volatile )?(.+?\*) (\S+), (.+?)\* (\S+?)(?:,.*)?$", rhs)
            if mm:
                try:
                    v, p = self.val(mm.group(2), env), self.val(mm.group(4), env)
                except Inconclusive:
                    return None
                if isinstance(v, Poly) and isinstance(p, Poly) and any(sy.startswith("stack") for sy in p.symbols()):
                    env.setdefault("__stack", {})[p] = v
            return None
        if op == "load":
            mm = re.match(r"^load (?:volatile )?(.+?), (.+?)\* (\S+?)(?:,.*)?$", rhs)
            p = self.val(mm.group(3), env)
            st = env.get("__stack", {})
            if p in st:
                env[dst] = st[p]
                return None
            if getattr(self, "symbolic_loads", False) and isinstance(p, Poly) and not any(sy.startswith("stack") for sy in p.symbols()):
                # a field of an object passed by reference (never written by the evaluated function: stores to such addresses are rejected): an
                # opaque value determined by its address, the same in every function evaluated on the same arguments
                sl = self.symbolic_loads
                env[dst] = sl(p) if callable(sl) else atom("mem", p)
                return None
            raise Inconclusive("load from %r (not a stack temporary written on this path)" % p)
        if op == "store" and re.match(r"^store (?:volatile )?(double|float) ", rhs):
            # a floating point scalar passed by address (alpha / beta of a BLAS call): remembered as an opaque value when the slot is a stack temporary
            mm = re.match(r"^store (?:volatile )?(\w+) (\S+), (.+?)\* (\S+?)(?:,.*)?$", rhs)
            try:
                v, p = self.val(mm.group(2), env), self.val(mm.group(4), env)
            except Inconclusive:
                return None
            if isinstance(v, Poly) and isinstance(p, Poly) and any(sy.startswith("stack") for sy in p.symbols()):
                env.setdefault("__stack", {})[p] = v
            elif isinstance(v, Poly) and isinstance(p, Poly):
                env.setdefault("__mem", {})[p] = v          # a floating point result written through a caller-provided pointer (recorded, not interpreted)
            return None
        if op == "store" and not re.match(r"^store (?:volatile )?i64 ", rhs):
            return None      # other non-integer data: not part of the index algebra
        if op == "store":
            mm = re.match(r"^store (.+?) (\S+), (.+?)\* (\S+?)(?:,.*)?$", rhs)
            v = self.val(mm.group(2), env)
            if isinstance(v, Bool):
                v = ite_of(v, Poly.const(1), Poly.const(0)) if v.v is None else Poly.const(1 if v.v else 0)
            p = self.val(mm.group(4), env)
            off = p - Poly.sym("out")
            if not off.is_const():
                if any(sy.startswith("stack") for sy in p.symbols()):
                    env.setdefault("__stack", {})[p] = v
                    return None
                raise Inconclusive("store to an address that is not out+const: %r" % p)
            env.setdefault("__stores", {})[int(off.const_value())] = v
            return None
        if op == "unreachable":
            raise Inconclusive("unreachable reached in " + fname)
        raise Inconclusive("unsupported instruction: " + ins[:80])

    def bitor_zero_test(self, pred, a, b, signs):
        """(x | y | ...) == 0  <=>  every operand is zero; None when the comparison is not of that form"""
        if pred not in ("eq", "ne") or not (isinstance(a, Poly) and isinstance(b, Poly)):
            return None
        if a.is_zero():
            a, b = b, a
        if not b.is_zero():
            return None
        sy = list(a.symbols())
        if len(sy) != 1 or not sy[0].startswith("bitor[") or a != Poly.sym(sy[0]):
            return None

        def leaves(p):
            s_ = list(p.symbols())
            if len(s_) == 1 and s_[0].startswith("bitor[") and p == Poly.sym(s_[0]):
                k_, args = _atoms[s_[0]]
                return leaves(args[0]) + leaves(args[1])
            return [p]
        ops_ = leaves(a)
        res = Bool(True)
        for o in ops_:
            t = Bool(decide_cmp("eq", o, Poly.const(0), signs), "eq %r , 0" % o, ("eq", o, Poly.const(0)))
            res = self.boolop("and", res, t)
        if pred == "ne":
            if res.v is None:
                return Bool(None, "not(%s)" % res.why, hint=res.hint)
            return Bool(not res.v, "not(%s)" % res.why)
        return res

    def boolop(self, op, a, b):
        av = a.v if isinstance(a, Bool) else (None if not a.is_const() else a.const_value() != 0)
        bv = b.v if isinstance(b, Bool) else (None if not b.is_const() else b.const_value() != 0)
        why = "(%s) %s (%s)" % (getattr(a, "why", a), op, getattr(b, "why", b))
        if op == "and":
            if av is False or bv is False:
                return Bool(False, why)
            if av is True and bv is True:
                return Bool(True, why)
            # x and true == x: the undecided operand keeps its identity (its comparison is what a later select may be collapsed on)
            if av is True and isinstance(b, Bool):
                return b
            if bv is True and isinstance(a, Bool):
                return a
            return Bool(None, why, hint=getattr(a, "hint", None) if av is None else getattr(b, "hint", None))
        if op == "or":
            if av is True or bv is True:
                return Bool(True, why)
            if av is False and bv is False:
                return Bool(False, why)
            if av is False and isinstance(b, Bool):
                return b
            if bv is False and isinstance(a, Bool):
                return a
            return Bool(None, why, hint=getattr(a, "hint", None) if av is None else getattr(b, "hint", None))
        if op == "xor":
            if av is None or bv is None:
                return Bool(None, why, hint=getattr(a, "hint", None) if av is None else getattr(b, "hint", None))
            return Bool(av != bv, why)
        raise Inconclusive("bool op " + op)


# ---------------------------------------------------------------------------------------------------------------
def emit_ir(src_path, out_path, defines=("-DNDEBUG",), opt="-O2", include=None):
    from . import common
    defines = list(defines)
    if not any("inline-threshold" in d for d in defines):
        # the closed forms need the whole operation in one function: do not let the result depend on the inliner's size heuristics (a few added
        # lines in a small accessor otherwise leave a call behind, which the evaluator reports as undecided)
        defines += ["-mllvm", "-inline-threshold=100000"]
    cmd = [common.CXX, common.STD, "-I" + (include or common.INCLUDE), opt, "-S", "-emit-llvm", "-Wno-everything",
           "-fno-exceptions" if False else "-fexceptions"] + defines + [src_path, "-o", out_path]
    r = common.run(cmd)
    if r.returncode != 0:
        raise common.AnalysisBroken("driver %s does not compile: %s" % (src_path, r.stderr[:3000]))
    with open(out_path) as fh:
        return fh.read()

"""Additional C01/C19 obligation families built on viewops.CustomRun: root layout, access paths, empty results."""
import itertools

from . import viewops, viewspec as vs
from .poly import Poly as P, POS, NONZERO, NONNEG, ZERO

A = viewops.A


def prod(xs):
    r = P.const(1)
    for x in xs:
        r = r * x
    return r


def add_root(cr, D, zb, fam, claim_collapse=True):
    args = []
    for k in range(D):
        args += ["f%d" % k, "z%d" % k]
    exts = ", ".join("multi::iextension{f%d, f%d + z%d}" % (k, k, k) for k in range(D))
    body = ["using std::get;", "multi::layout_t<%d> l(multi::extensions_t<%d>{%s});" % (D, D, exts),
            "out[0] = l.size(); out[1] = l.num_elements(); out[2] = l.is_empty() ? 1 : 0;"]
    for k in range(D):
        body.append("{ auto const& lk = subk<%d>(l); out[%d] = lk.stride(); out[%d] = lk.offset(); out[%d] = lk.nelems(); }" % (k, 3 + 3 * k, 4 + 3 * k, 5 + 3 * k))
        body.append("out[%d] = get<%d>(l.extensions()).first(); out[%d] = get<%d>(l.sizes());" % (3 + 3 * D + 2 * k, k, 4 + 3 * D + 2 * k, k))
    cases = []
    for zeros in itertools.product([False, True], repeat=D):
        env = {"z%d" % k: P.const(0) for k in range(D) if zeros[k]}
        if zb:
            env.update({"f%d" % k: P.const(0) for k in range(D)})
        name = "zero=" + ("".join("1" if z else "0" for z in zeros))
        cases.append(dict(env, __name=name, __zeros=zeros))

    def wants(case, env):
        zeros = case["__zeros"]
        z = [P.const(0) if zeros[k] else A("z%d" % k) for k in range(D)]
        f = [P.const(0) if zb else A("f%d" % k) for k in range(D)]
        w = {}
        collapse = "%s.root.leading-size-collapses-when-an-inner-size-is-zero" % fam
        w[(0, "size")] = (z[0], collapse) if (not zeros[0] and any(zeros[1:])) else z[0]
        w[(1, "num_elements")] = prod(z)
        w[(2, "is_empty")] = P.const(1 if any(zeros) else 0)
        for k in range(D):
            inner = prod(z[k + 1:])
            stride = inner if not inner.is_zero() else P.const(1)
            w[(3 + 3 * k, "stride%d" % k)] = stride
            w[(4 + 3 * k, "offset%d" % k)] = f[k] * stride
            w[(5 + 3 * k, "nelems%d" % k)] = z[k] * inner
            if not any(zeros[k:]):
                w[(3 + 3 * D + 2 * k, "first%d" % k)] = f[k]
            w[(4 + 3 * D + 2 * k, "sizes%d" % k)] = (z[k], collapse) if (not zeros[k] and any(zeros[k + 1:])) else z[k]
        if not claim_collapse:   # the zero-inner-size collapse is a C01 matter, not an index-base one
            w = {k: v for k, v in w.items() if not isinstance(v, tuple)}
        return w
    signs = {}
    for k in range(D):
        signs["z%d" % k] = POS
    cr.add("%s.root(D=%d)" % (fam, D), fam + ".root", D, args, " ".join(body), wants, cases=cases, signs=signs, view=False)


def add_paths(cr, D, zb, fam):
    idx = ["i%d" % k for k in range(D)]
    ii = ", ".join(idx)
    chain = "".join("[%s]" % i for i in idx)
    firsts = " ".join("long F%d = get<%d>(v.extensions()).first();" % (k, k) for k in range(D))
    rel = "".join("[i%d - F%d]" % (k, k) for k in range(D))
    tail = "".join("[%s]" % i for i in idx[1:])
    body = ("using std::get; %s "
            "out[0] = eaddr(v(%s), base); "
            "out[1] = eaddr(v.apply(std::array<multi::index, %d>{%s}), base); "
            "%s"
            "out[3] = eaddr(v.home()%s, base); "
            "out[4] = eaddr((*(v.begin() + (i0 - F0)))%s, base); "
            "out[5] = eaddr(v.apply(std::make_tuple(%s)), base); "
            "out[6] = eaddr(v%s, base); "
            "{ auto const& cv = v; out[7] = eaddr(cv%s, base); out[8] = eaddr(cv(%s), base); }"
            ) % (firsts, ii, D, ii, ("out[2] = eaddr(v[multi::detail::mk_tuple(%s)], base); " % ii) if D <= 1 else "", rel, tail, ii, chain, chain, ii)
    v = vs.root(D, zb)
    want = v.addr([A(i) for i in idx]) * viewops.ELEM
    names = ["call", "apply(array)", "bracket(tuple)", "cursor", "iterator", "apply(tuple)", "brackets", "const-brackets", "const-call"]
    wants = {(k, names[k]): want for k in range(9) if not (k == 2 and D > 1)}
    cr.add("%s.paths(D=%d)" % (fam, D), fam + ".paths", D, idx, body, wants)


def add_empty_results(cr, D, zb, fam):
    """operations producing empty views must report size 0 / num_elements 0 / is_empty"""
    for name, expr, args, cases in [
        ("sliced(a,a)", "v.sliced(a, a)", ["a"], [dict()]),
        ("taked(0)", "v.taked(0)", [], [dict()]),
        ("dropped(size)", "v.dropped(c)", ["c"], [{"z0": A("c")}]),
        ("range({a,a})", "v.range(multi::irange{a, a})", ["a"], [dict()]),
    ]:
        body = "{ auto&& w = %s; out[0] = w.size(); out[1] = w.num_elements(); out[2] = w.is_empty() ? 1 : 0; }" % expr
        cr.add("%s.empty(%s,D=%d)" % (fam, name, D), fam + ".empty", D, args, body,
               {(0, "size"): P.const(0), (1, "num_elements"): P.const(0), (2, "is_empty"): P.const(1)}, cases=cases, signs={"c": POS})

"""Record layouts from clang (-fdump-record-layouts): byte offsets of alloc_, the layout_t base and base_ inside owning arrays."""
import re

from . import common


def dump(src, include=None, defines=()):
    r = common.run([common.CXX, common.STD, "-I" + (include or common.INCLUDE), "-fsyntax-only", "-Wno-everything", "-Xclang", "-fdump-record-layouts"] + list(defines) + [src])
    if r.returncode != 0:
        raise common.AnalysisBroken("record layout dump failed: " + r.stderr[:1500])
    return r.stdout


def parse(text):
    """returns dict: top-level record name -> dict(fields=[(offset, depth, decl)], sizeof=int)"""
    recs = {}
    cur = None
    for line in text.splitlines():
        if line.startswith("*** Dumping AST Record Layout"):
            cur = None
            continue
        m = re.match(r"^\s*(\d+) \|( +)(.*)$", line)
        if m:
            off, ind, decl = int(m.group(1)), len(m.group(2)), m.group(3).strip()
            if cur is None:
                name = re.sub(r"^(struct|class|union) ", "", decl)
                cur = dict(name=name, fields=[], sizeof=None)
                recs[name] = cur
            else:
                cur["fields"].append((off, ind, decl))
            continue
        m = re.match(r"^\s*\| \[sizeof=(\d+)", line)
        if m and cur is not None:
            cur["sizeof"] = int(m.group(1))
    return recs


def norm(n):
    return re.sub(r"\b(struct|class) ", "", n).replace(" >", ">")


def owning_offsets(recs, classname_regex):
    """for every dumped record whose normalised name matches: offsets of alloc_, layout base, base_"""
    out = {}
    for name, r in recs.items():
        nn = norm(name)
        if not re.search(classname_regex, nn):
            continue
        alloc = lay = base = None
        laysize = None
        for off, ind, decl in r["fields"]:
            d = norm(decl)
            if d.endswith(" alloc_") and alloc is None:
                alloc = off
            if re.match(r"^boost::multi::layout_t<\d+(, long)?> \(base\)", d) and lay is None:
                lay = off
                lt = re.match(r"^(boost::multi::layout_t<\d+(, long)?>)", d).group(1)
                for n2, r2 in recs.items():
                    if norm(n2) == lt:
                        laysize = r2["sizeof"]
            if d.endswith(" base_") and base is None:
                base = off
        out[nn] = dict(alloc=alloc, layout=lay, layout_size=laysize, base=base, sizeof=r["sizeof"])
    return out

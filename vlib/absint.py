"""Engine A: path-sensitive abstract interpretation of unoptimised IR over a term domain, producing *event traces*.

The container layer (array / static_array / array_ref / subarray / const_subarray / array_types / array_allocator /
elements_range_t members) is interpreted (callees inlined, exception edges followed); allocation, element construction /
destruction / assignment primitives become events; value-type helpers (layout_t, extensions_t, ranges, tuples, iterators) are
opaque pure terms.  A trace is the ordered list of events on one path through the anchor function, ending in `ret` or `unwind`.
No concrete values, no solver: conditions are terms; a branch on an undecided term forks, a repeated condition is reused.
"""
import re
import sys

from . import ir0
from .irval import sizeof, field_offset, _split_args

sys.setrecursionlimit(20000)


class Limit(Exception):
    pass


INLINE_STD = re.compile(r"^(?:[\w:<>,&* ]+? )?std::(exchange|__exchange|move|forward|addressof|__addressof|as_const|swap|iter_swap|min|max|launder)<")
INLINE = re.compile(r"^(?:auto |void |decltype\(auto\) )?boost::multi::(?:detail::array_allocator|array_types|static_array|array_ref|array|subarray|"
                    r"const_subarray|move_subarray|elements_range_t)<")

# non-const accessors of the value layer that hand out a reference into the object (one GEP): followed, so that a write through the reference is seen
INLINE_ACCESSOR = re.compile(r"boost::multi::layout_t<[^()]*>::(nelems|stride|offset|sub)\(\) &$")

# members that the library's own allocator_traits wrapper adds on top of std::allocator_traits are interpreted (a shadowing member must not pass for the
# standard one); allocate / deallocate stay events (PRIMS)
INLINE_TRAITS = re.compile(r"boost::multi::allocator_traits<.*>::(?!allocate\b|deallocate\b|construct\b|destroy\b)\w+\(")

INLINE_FREE = re.compile(r"^(?:[\w:<>,&* ]+? )?boost::multi::(?:\w+|operator[=!<>~]=?)\((?:boost::multi::)?(array|static_array|array_ref|subarray|const_subarray|move_subarray)<")

# helpers of the library (boost::multi or its detail namespace) whose first parameter is a reference to an allocator: allocator propagation written
# as a function (tag dispatch on the propagate_on_container_* traits) instead of in place
INLINE_ALLOC_HELPER = re.compile(r"^(?:[\w:<>,&* ]+? )?boost::multi::(?:detail::)?\w+(?:<.*>)?\((?:ObsAlloc|StrictAlloc|RawAlloc|std::allocator)<[^()]*>\s*(?:const\s*)?&")

PRIMS = [
    # (regex on demangled callee, event kind, may throw)
    (re.compile(r"\b(?:adl_)?(?:alloc_)?uninitialized_(copy|move|fill|value_construct|default_construct)(_n)?_t::operator\(\)"), "construct", True),
    (re.compile(r"adl_alloc_destroy_n_t::operator\(\)|adl_destroy_n_t::operator\(\)"), "destroy", False),
    (re.compile(r"adl_(copy|copy_n|move|fill_n|fill|swap_ranges|move_backward|copy_backward)_t::operator\(\)"), "assign", True),
    (re.compile(r"adl_(equal|lexicographical_compare)_t::operator\(\)"), "compare", True),
    (re.compile(r"std::allocator_traits<.*>::allocate\(|::allocator_traits<.*>::allocate\("), "alloc", True),
    (re.compile(r"std::allocator_traits<.*>::deallocate\(|::allocator_traits<.*>::deallocate\("), "dealloc", False),
    (re.compile(r"std::allocator_traits<.*>::select_on_container_copy_construction\("), "socc", False),
    (re.compile(r"std::allocator_traits<.*>::max_size\("), "pure", False),
]


CONTAINER_CLASSES = {"array_allocator", "array_types", "static_array", "array_ref", "array", "subarray", "const_subarray", "move_subarray", "elements_range_t"}


def container_member(dm):
    """member function (template) of a container-layer class, or free function / operator in boost::multi whose first parameter is a
    container-layer object, whatever its return type is spelled like"""
    sh = short(dm)
    head = sh.split("(")[0].split()
    if not head:
        return False
    q = head[-1].split("::")
    if len(q) >= 2 and q[-2] in CONTAINER_CLASSES:
        return True
    if "boost::multi::" in dm.split("(")[0] and len(q) == 1:
        m = re.match(r"^[^(]*\((\w+)", sh)
        if m and m.group(1) in CONTAINER_CLASSES - {"array_allocator", "elements_range_t"}:
            return True
    return False


def short(name):
    s = re.sub(r"<[^<>]*>", "", name)
    for _ in range(6):
        s = re.sub(r"<[^<>]*>", "", s)
    return s.replace("boost::multi::detail::", "").replace("boost::multi::", "")


def is_ptr(v):
    return isinstance(v, tuple) and v and v[0] == "p"


class Path:
    __slots__ = ("mem", "pc", "events", "n", "ver")

    def __init__(self, mem=None, pc=None, events=(), ver=None):
        self.mem = mem if mem is not None else {}
        self.pc = pc if pc is not None else {}
        self.events = events
        self.n = 0
        self.ver = ver if ver is not None else {}

    def fork(self):
        p = Path(dict(self.mem), dict(self.pc), self.events, dict(self.ver))
        return p

    def bump(self, region):
        self.ver[region] = self.ver.get(region, 0) + 1

    def emit(self, ev):
        self.events = self.events + (ev,)


class Interp:
    def __init__(self, mod, max_paths=4000, max_depth=40, opaque_extra=None, inline_extra=None):
        self.mod = mod
        self.max_paths = max_paths
        self.max_depth = max_depth
        self.counter = 0
        self.npaths = 0
        self.opaque_extra = opaque_extra
        self.inline_extra = inline_extra
        self.may_throw = compute_may_throw(mod)
        self.calls_seen = set()

    # ---- classification -----------------------------------------------------------------------------------------
    def classify(self, callee):
        dm = self.mod.demangled.get(callee, callee)
        for rx, kind, thr in PRIMS:
            if rx.search(dm):
                return ("prim", kind, thr, dm)
        if callee.startswith("llvm."):
            return ("intrinsic", None, False, dm)
        if callee in self.mod.funcs:
            if self.opaque_extra and self.opaque_extra.search(dm):
                return ("opaque", None, self.may_throw.get(callee, True), dm)
            if INLINE.search(dm) or INLINE_STD.search(dm) or INLINE_FREE.search(dm) or INLINE_ACCESSOR.search(dm) or INLINE_TRAITS.search(dm) or INLINE_ALLOC_HELPER.search(dm) or container_member(dm) or (self.inline_extra and self.inline_extra.search(dm)):
                return ("inline", None, self.may_throw.get(callee, True), dm)
            return ("opaque", None, self.may_throw.get(callee, True), dm)
        return ("extern", None, not self.mod.is_nounwind(callee), dm)

    # ---- top level ----------------------------------------------------------------------------------------------
    def run(self, fname, argvals=None, init_mem=None):
        """returns list of (outcome, retval, Path) with outcome in {'ret','unwind','terminate'}"""
        f = self.mod.funcs[fname]
        self.npaths = 0
        if argvals is None:
            argvals = []
            for k, (pn, pt, sret) in enumerate(f.params):
                if pt.endswith("*"):
                    argvals.append(("p", ("param", k), 0))
                else:
                    argvals.append(("arg", k))
        p = Path(dict(init_mem or {}))
        return self.call_function(f, argvals, p, 0)

    def call_function(self, f, argvals, path, depth):
        if depth > self.max_depth:
            raise Limit("inlining depth exceeded at " + f.demangled[:100])
        self.counter += 1
        frame = self.counter
        env = {}
        for (pn, pt, sret), a in zip(f.params, argvals):
            env[pn] = a
        return self.exec_block(f, "entry", None, env, path, depth, frame, {})

    # ---- block execution ----------------------------------------------------------------------------------------
    def exec_block(self, f, label, prev, env, path, depth, frame, visits):
        key = label
        visits = dict(visits)
        visits[key] = visits.get(key, 0) + 1
        if visits[key] > getattr(self, "max_visits", 3):
            if getattr(self, "truncate_loops", False):
                # bounded unrolling: the paths that go round a loop of the interpreted layer more often than the bound are not followed (the shorter
                # ones - zero, one, two iterations - are); recorded, so that the evidence says the loop was unrolled and not summarised
                self.truncated = getattr(self, "truncated", set()) | {short(f.demangled)[:100]}
                return []
            raise Limit("loop in interpreted function %s (block %s)" % (f.demangled[:120], label))
        instrs = f.blocks[label]
        # phis first (parallel)
        newvals = {}
        for ins in instrs:
            if ins.op != "phi":
                break
            for val, lab in ins.arms:
                lab = lab.strip()
                if lab == prev or (prev == "entry" and lab == "%%%d" % len(f.params)):
                    newvals[ins.dst] = self.val(val.strip(), env, f)
                    break
            else:
                newvals[ins.dst] = ("phi?", ins.dst)
        env = dict(env)
        env.update(newvals)
        for i, ins in enumerate(instrs):
            op = ins.op
            if op == "phi":
                continue
            if op in ("call", "invoke"):
                outs = self.do_call(f, ins, env, path, depth, frame)
                results = []
                for kind, rv, p2 in outs:
                    if kind == "ret":
                        env2 = dict(env)
                        if ins.dst:
                            env2[ins.dst] = rv
                        if op == "invoke":
                            results += self.exec_block(f, ins.normal, label, env2, p2, depth, frame, visits)
                        else:
                            results += self.exec_rest(f, label, prev, i + 1, env2, p2, depth, frame, visits)
                    elif kind == "unwind":
                        if op == "invoke":
                            results += self.exec_block(f, ins.unwind, label, dict(env), p2, depth, frame, visits)
                        else:
                            results.append(("unwind", None, p2))
                    else:
                        results.append((kind, rv, p2))
                return results
            r = self.step(f, ins, env, path, frame, label)
            if r is None:
                continue
            kind = r[0]
            if kind == "ret":
                return [("ret", r[1], path)]
            if kind == "resume":
                return [("unwind", None, path)]
            if kind == "unreachable":
                return [("terminate", None, path)]
            if kind == "br":
                targets = r[1]
                if len(targets) == 1:
                    return self.exec_block(f, targets[0][1], label, env, path, depth, frame, visits)
                results = []
                for lit, tgt in targets:
                    p2 = path.fork()
                    if lit is not None:
                        p2.pc[lit[0]] = lit[1]
                    self.npaths += 1
                    if self.npaths > self.max_paths:
                        raise Limit("path bound exceeded in " + f.demangled[:100])
                    results += self.exec_block(f, tgt, label, dict(env), p2, depth, frame, visits)
                return results
        raise Limit("block falls through: %s %s" % (f.name, label))

    def exec_rest(self, f, label, prev, start, env, path, depth, frame, visits):
        """continue a block after a call instruction at index start-1"""
        instrs = f.blocks[label]
        for i in range(start, len(instrs)):
            ins = instrs[i]
            op = ins.op
            if op in ("call", "invoke"):
                outs = self.do_call(f, ins, env, path, depth, frame)
                results = []
                for kind, rv, p2 in outs:
                    if kind == "ret":
                        env2 = dict(env)
                        if ins.dst:
                            env2[ins.dst] = rv
                        if op == "invoke":
                            results += self.exec_block(f, ins.normal, label, env2, p2, depth, frame, visits)
                        else:
                            results += self.exec_rest(f, label, prev, i + 1, env2, p2, depth, frame, visits)
                    elif kind == "unwind":
                        if op == "invoke":
                            results += self.exec_block(f, ins.unwind, label, dict(env), p2, depth, frame, visits)
                        else:
                            results.append(("unwind", None, p2))
                    else:
                        results.append((kind, rv, p2))
                return results
            r = self.step(f, ins, env, path, frame, label)
            if r is None:
                continue
            kind = r[0]
            if kind == "ret":
                return [("ret", r[1], path)]
            if kind == "resume":
                return [("unwind", None, path)]
            if kind == "unreachable":
                return [("terminate", None, path)]
            if kind == "br":
                targets = r[1]
                if len(targets) == 1:
                    return self.exec_block(f, targets[0][1], label, env, path, depth, frame, visits)
                results = []
                for lit, tgt in targets:
                    p2 = path.fork()
                    if lit is not None:
                        p2.pc[lit[0]] = lit[1]
                    self.npaths += 1
                    if self.npaths > self.max_paths:
                        raise Limit("path bound exceeded in " + f.demangled[:100])
                    results += self.exec_block(f, tgt, label, dict(env), p2, depth, frame, visits)
                return results
        raise Limit("block falls through: %s %s" % (f.name, label))

    # ---- values -------------------------------------------------------------------------------------------------
    def val(self, tok, env, f):
        if tok in env:
            return env[tok]
        if re.match(r"^-?\d+$", tok):
            return ("c", int(tok))
        if tok in ("null", "zeroinitializer"):
            return ("c", 0)
        if tok == "true":
            return ("c", 1)
        if tok == "false":
            return ("c", 0)
        if tok in ("undef", "poison"):
            return ("undef",)
        if tok.startswith("@"):
            return ("p", ("global", tok), 0)
        return ("?", tok)

    def objterm(self, v, path):
        """value-semantics view of a pointer argument: the abstract content of the pointee if known"""
        if is_ptr(v):
            reg, off = v[1], v[2]
            if off is not None and (reg, off) in path.mem:
                c = path.mem[(reg, off)]
                if isinstance(c, tuple) and c and c[0] == "xv" and reg[0] == "alloca":
                    # a small aggregate returned in registers and spilled field by field: the object is the aggregate itself
                    cells = [v2 for (r, o), v2 in path.mem.items() if r == reg and isinstance(o, int) and o >= off]
                    aggs = {unxv(v2) for v2 in cells}
                    if len(aggs) == 1 and None not in aggs:
                        return ("@", aggs.pop())
                return ("@", c)
            if reg[0] == "heap":
                return v
            if tracked_region(reg):
                return ("ref", reg, off, path.ver.get(reg, 0))
            if off is not None:
                # aggregate the known scalar cells of a local object
                cells = tuple(sorted(((o, self._h(c)) for (r, o), c in path.mem.items() if r == reg and isinstance(o, int) and o >= off), key=lambda t: t[0]))
                if cells:
                    return ("@cells", cells)
                if reg[0] == "alloca" and not path.mem.get((reg, "dirty")) and len(reg) > 4:
                    return ("obj0", reg[4])      # never written: two such temporaries of one type hold the same (indeterminate / empty) value
            return ("ref", reg, off)
        return v

    def _h(self, c):
        return c

    # ---- non-call instruction -----------------------------------------------------------------------------------
    def step(self, f, ins, env, path, frame, label):
        op = ins.op
        if op == "alloca":
            ty = ins.text.split("alloca", 1)[1].split(",")[0].strip()
            env[ins.dst] = ("p", ("alloca", frame, ins.dst, tracked_type(ty), ty), 0)
            return None
        if op == "bitcast" or op in ("inttoptr", "ptrtoint", "sext", "zext", "trunc", "freeze", "addrspacecast"):
            env[ins.dst] = self.val(ins.val, env, f)
            return None
        if op == "getelementptr":
            base = self.val(ins.ptr, env, f)
            if not is_ptr(base):
                env[ins.dst] = ("gep", base)
                return None
            off = base[2]
            try:
                idxs = [self.val(i, env, f) for i in ins.idx]
                if off is not None:
                    curty = ins.srcty
                    first = True
                    for iv in idxs:
                        if iv[0] != "c":
                            off = None
                            break
                        if first:
                            off += iv[1] * sizeof(curty, self.mod.structs)[0]
                            first = False
                        else:
                            o, curty = field_offset(curty, iv[1], self.mod.structs)
                            off += o
            except Exception:  # noqa: BLE001  unknown type: offset unknown
                off = None
            env[ins.dst] = ("p", base[1], off)
            return None
        if op == "load" and ins.ty and ins.ty.strip().startswith("{"):
            # first-class aggregate load: gather the cells it covers
            p = self.val(ins.ptr, env, f)
            if is_ptr(p) and p[2] is not None:
                try:
                    size = sizeof(ins.ty, self.mod.structs)[0]
                except Exception:  # noqa: BLE001
                    size = 16
                cells = tuple(sorted((o - p[2], c) for (r, o), c in path.mem.items() if r == p[1] and isinstance(o, int) and p[2] <= o < p[2] + size))
                env[ins.dst] = ("aggv", ins.ty.strip(), cells)
            else:
                env[ins.dst] = ("load?", p)
            return None
        if op == "store" and ins.ty and ins.ty.strip().startswith("{"):
            p = self.val(ins.ptr, env, f)
            v = self.val(ins.val, env, f)
            if is_ptr(p) and p[2] is not None:
                if isinstance(v, tuple) and v and v[0] == "aggv":
                    for ro, c in v[2]:
                        path.mem[(p[1], p[2] + ro)] = c
                else:
                    # an aggregate produced by a call: its fields are extractvalue projections
                    try:
                        n = len(_split_args(ins.ty.strip()[1:-1]))
                        for i in range(n):
                            o, _ = field_offset(ins.ty.strip(), i, self.mod.structs)
                            path.mem[(p[1], p[2] + o)] = ("xv", v, i)
                    except Exception:  # noqa: BLE001
                        path.mem[(p[1], p[2])] = v
                if tracked_region(p[1]):
                    path.emit(("writeblk", p[1], p[2], None, ("obj", v)))
                    path.bump(p[1])
            return None
        if op == "load":
            p = self.val(ins.ptr, env, f)
            if is_ptr(p) and p[2] is not None:
                k = (p[1], p[2])
                if k in path.mem:
                    env[ins.dst] = path.mem[k]
                else:
                    # enclosing whole-object cell?
                    v = ("init", p[1], p[2])
                    for (r, o), c in path.mem.items():
                        if r == p[1] and o < p[2] and isinstance(c, tuple) and c and c[0] == "obj":
                            v = ("fieldof", c, p[2] - o)
                    path.mem[k] = v
                    env[ins.dst] = v
            else:
                env[ins.dst] = ("load?", p)
            return None
        if op == "store":
            p = self.val(ins.ptr, env, f)
            v = self.val(ins.val, env, f)
            if is_ptr(p):
                if p[2] is not None:
                    path.mem[(p[1], p[2])] = v
                if tracked_region(p[1]):
                    path.emit(("write", p[1], p[2], v))
                    path.bump(p[1])
                elif p[2] is None:
                    path.mem[(p[1], "dirty")] = True
            return None
        if op == "br":
            if ins.cond is None:
                return ("br", [(None, ins.targets[0])])
            c = self.val(ins.cond, env, f)
            d = self.decide(c, path)
            if d is True:
                return ("br", [(None, ins.targets[0])])
            if d is False:
                return ("br", [(None, ins.targets[1])])
            neg = False
            while isinstance(c, tuple) and c[0] == "not":
                c, neg = c[1], not neg
            return ("br", [((c, not neg), ins.targets[0]), ((c, neg), ins.targets[1])])
        if op == "switch":
            c = self.val(ins.cond, env, f)
            return ("br", [(None, t) for t in ins.targets][:1] if c[0] == "c" else [(((c, i), True), t) for i, t in enumerate(ins.targets)])
        if op == "ret":
            return ("ret", self.val(ins.val, env, f) if ins.val else None)
        if op == "resume":
            return ("resume",)
        if op == "unreachable":
            return ("unreachable",)
        if op == "landingpad":
            env[ins.dst] = ("lpad", ins.catchall, ins.cleanup)
            return None
        if op == "icmp":
            a, b = self.val(ins.args[0], env, f), self.val(ins.args[1], env, f)
            env[ins.dst] = self.mk_cmp(ins.cond, a, b)
            return None
        if op == "select":
            c = self.val(ins.cond, env, f)
            d = self.decide(c, path)
            a, b = self.val(ins.args[0], env, f), self.val(ins.args[1], env, f)
            env[ins.dst] = a if d is True else b if d is False else ("ite", c, a, b)
            return None
        if op in ("add", "sub", "mul", "sdiv", "udiv", "srem", "urem", "and", "or", "xor", "shl", "ashr", "lshr"):
            a, b = self.val(ins.args[0], env, f), self.val(ins.args[1], env, f)
            env[ins.dst] = self.mk_arith(op, a, b, path)
            return None
        if op == "extractvalue":
            agg = self.val(ins.val, env, f) if ins.val else ("?", "agg")
            idx = int(ins.idx[0]) if ins.idx else 0
            if isinstance(agg, tuple) and agg and agg[0] == "aggv":
                try:
                    o, _ = field_offset(agg[1], idx, self.mod.structs)
                    hit = [c for ro, c in agg[2] if ro == o]
                    env[ins.dst] = hit[0] if hit else ("xv", agg, idx)
                except Exception:  # noqa: BLE001
                    env[ins.dst] = ("xv", agg, idx)
                return None
            while isinstance(agg, tuple) and agg and agg[0] == "iv":
                if agg[3] == idx:
                    env[ins.dst] = agg[2]
                    return None
                agg = agg[1]
            env[ins.dst] = ("xv", agg, idx)
            return None
        if op == "insertvalue":
            m = re.match(r"^insertvalue (.+?) (\S+), (.+?) (\S+), (\d+)$", ins.text.split(" = ", 1)[1])
            if m:
                env[ins.dst] = ("iv", self.val(m.group(2), env, f), self.val(m.group(4), env, f), int(m.group(5)))
            else:
                env[ins.dst] = ("?", "insertvalue")
            return None
        if ins.dst:
            env[ins.dst] = ("?", ins.text[:60])
        return None

    def mk_cmp(self, pred, a, b):
        if a[0] == "c" and b[0] == "c":
            r = {"eq": a[1] == b[1], "ne": a[1] != b[1], "slt": a[1] < b[1], "sle": a[1] <= b[1], "sgt": a[1] > b[1], "sge": a[1] >= b[1],
                 "ult": a[1] < b[1], "ule": a[1] <= b[1], "ugt": a[1] > b[1], "uge": a[1] >= b[1]}.get(pred)
            if r is not None:
                return ("c", 1 if r else 0)
        for x, y in ((a, b), (b, a)):
            if is_ptr(x) and x[1][0] in ("param", "alloca", "global") and y == ("c", 0) and pred in ("eq", "ne"):
                return ("c", 1 if pred == "ne" else 0)
        # distinct objects have distinct addresses: a local (alloca) of the function under analysis never coincides with an object of the caller
        # (parameter region) or with another local
        if pred in ("eq", "ne") and is_ptr(a) and is_ptr(b) and a[1] != b[1] and "alloca" in (a[1][0], b[1][0]) and a[1][0] in ("param", "alloca", "global") \
                and b[1][0] in ("param", "alloca", "global") and a[2] == 0 and b[2] == 0:
            return ("c", 1 if pred == "ne" else 0)
        # two addresses inside one object with known offsets
        if is_ptr(a) and is_ptr(b) and a[1] == b[1] and isinstance(a[2], int) and isinstance(b[2], int) and a[2] != b[2]:
            r = {"eq": False, "ne": True, "slt": a[2] < b[2], "sle": a[2] <= b[2], "sgt": a[2] > b[2], "sge": a[2] >= b[2],
                 "ult": a[2] < b[2], "ule": a[2] <= b[2], "ugt": a[2] > b[2], "uge": a[2] >= b[2]}.get(pred)
            if r is not None:
                return ("c", 1 if r else 0)
        if a == b and pred in ("eq", "sle", "sge", "ule", "uge"):
            return ("c", 1)
        if a == b and pred in ("ne", "slt", "sgt", "ult", "ugt"):
            return ("c", 0)
        if pred == "ne":
            return ("not", ("cmp", "eq", a, b))
        return ("cmp", pred, a, b)

    def mk_arith(self, op, a, b, path):
        if a[0] == "c" and b[0] == "c":
            try:
                return ("c", {"add": a[1] + b[1], "sub": a[1] - b[1], "mul": a[1] * b[1], "and": a[1] & b[1], "or": a[1] | b[1], "xor": a[1] ^ b[1]}[op])
            except KeyError:
                pass
        if op == "xor" and b == ("c", 1):
            return ("not", a) if not (isinstance(a, tuple) and a[0] == "not") else a[1]
        if op == "mul" and (a == ("c", 0) or b == ("c", 0)):
            return ("c", 0)
        if op == "mul" and a == ("c", 1):
            return b
        if op == "mul" and b == ("c", 1):
            return a
        if op in ("add", "or") and a == ("c", 0):
            return b
        if op in ("add", "sub", "or") and b == ("c", 0):
            return a
        return (op, a, b)

    def decide(self, c, path):
        if c[0] == "c":
            return bool(c[1])
        neg = False
        while isinstance(c, tuple) and c[0] == "not":
            c, neg = c[1], not neg
        if c[0] == "c":
            return bool(c[1]) != neg
        if c in path.pc:
            return path.pc[c] != neg
        return None

    # ---- calls --------------------------------------------------------------------------------------------------
    def do_call(self, f, ins, env, path, depth, frame):
        callee = ins.callee
        args = [self.val(a, env, f) for a in ins.args]
        if callee.startswith("%"):
            path.emit(("indirect-call", ins.text[:80]))
            return [("ret", ("?", "indirect"), path), ("unwind", None, path.fork())]
        cls, kind, thr, dm = self.classify(callee)
        site_nothrow = ir0.site_nounwind(self.mod, ins)
        if cls == "intrinsic":
            return self.intrinsic(callee, args, path, ins)
        if callee in ("__cxa_begin_catch", "__cxa_end_catch", "__cxa_allocate_exception", "__cxa_free_exception", "__gxx_personality_v0"):
            return [("ret", ("?", callee), path)]
        if callee in ("__cxa_rethrow", "__cxa_throw", "_ZSt17__throw_bad_allocv", "_ZSt28__throw_bad_array_new_lengthv", "_ZSt20__throw_length_errorPKc"):
            path.emit(("throw", callee))
            return [("unwind", None, path)]
        if callee in ("__clang_call_terminate", "_ZSt9terminatev", "abort", "__assert_fail"):
            path.emit(("terminate", callee))
            return [("terminate", None, path)]
        self.calls_seen.add(dm)
        if dm.startswith("operator new(unsigned long, void*)") or dm.startswith("operator new[](unsigned long, void*)"):
            return [("ret", args[1], path)]
        if cls == "inline":
            return self.call_function(self.mod.funcs[callee], args, path, depth + 1)
        # primitive / opaque / extern : an event or a term
        sretp = None
        fdecl = self.mod.funcs.get(callee)
        if ins.argtys and "sret(" in ins.argtys[0]:
            sretp = args[0]
        argterms = tuple(self.objterm(a, path) for a in (args[1:] if sretp is not None else args))
        if cls == "prim":
            ev = (kind, short(dm).split("::operator()")[0].split("::")[-1] if "operator()" in dm else kind, tuple(args), argterms, short(dm), dm)
            if kind == "alloc":
                self.counter += 1
                rv = ("p", ("heap", self.counter), 0)
                ev = ("alloc", rv[1], tuple(args), argterms)
            elif kind in ("pure", "socc"):
                rv = ("call", short(dm), argterms)
                if sretp is not None and is_ptr(sretp) and sretp[2] is not None:
                    path.mem[(sretp[1], sretp[2])] = ("obj", rv)
            else:
                rv = ("call", short(dm), argterms)
            outs = []
            if thr and not site_nothrow:
                p2 = path.fork()
                p2.emit(("throws",) + ev)
                outs.append(("unwind", None, p2))
            if kind not in ("pure",):
                path.emit(ev)
            outs.insert(0, ("ret", rv, path))
            return outs
        # opaque (library value layer, std) or extern
        name = short(dm)
        rv = ("call", name, argterms)
        wrote = False
        if sretp is not None and is_ptr(sretp) and sretp[2] is not None:
            path.mem[(sretp[1], sretp[2])] = ("obj", rv)
            wrote = True
        elif args and is_ptr(args[0]) and args[0][2] is not None and is_ctor(dm):
            for k in [k for k in path.mem if k[0] == args[0][1] and isinstance(k[1], int) and k[1] > args[0][2] and False]:
                del path.mem[k]
            path.mem[(args[0][1], args[0][2])] = ("obj", rv)
            wrote = True
            if tracked_region(args[0][1]):
                path.emit(("writeblk", args[0][1], args[0][2], None, ("obj", rv)))
                path.bump(args[0][1])
        # pointer-returning accessors on a region: may alias that region
        if fdecl is not None and fdecl.retty and fdecl.retty.strip().split()[-1].endswith("*") and not wrote:
            for a in args:
                if is_ptr(a):
                    rv = ("p", a[1], None) if not is_pure_value_accessor(dm) else rv
                    break
        ext = cls == "extern"
        hv = getattr(self, "extern_havoc", None)
        if ext and hv is not None and hv(dm):
            # an external routine that writes through its pointer arguments (e.g. an input archive): the local objects they point into are forgotten
            for a in args:
                if is_ptr(a) and a[1][0] == "alloca":
                    for k in [k for k in path.mem if k[0] == a[1]]:
                        del path.mem[k]
                    self.counter += 1
                    path.mem[(a[1], 0)] = ("obj", ("written-by", name, self.counter))
        if re.match(r"^intersection\(", name):
            path.emit(("intersect", name, argterms))
        if ext or non_const_on_tracked(dm, args) or (self.opaque_extra and self.opaque_extra.search(dm)):
            path.emit(("ext" if ext else "opaque", name, tuple(args), argterms))
        outs = [("ret", rv, path)]
        if thr and not site_nothrow:
            p2 = path.fork()
            p2.emit(("throws", "ext" if ext else "opaque", name))
            outs.append(("unwind", None, p2))
        return outs

    def intrinsic(self, callee, args, path, ins):
        if callee.startswith("llvm.memcpy") or callee.startswith("llvm.memmove"):
            dst, src, n = args[0], args[1], args[2]
            if is_ptr(dst) and is_ptr(src) and n[0] == "c" and dst[2] is not None and src[2] is not None:
                moved = {}
                for (r, o), c in list(path.mem.items()):
                    if r == src[1] and isinstance(o, int) and src[2] <= o < src[2] + n[1]:
                        moved[(dst[1], dst[2] + o - src[2])] = c
                for k in [k for k in path.mem if k[0] == dst[1] and isinstance(k[1], int) and dst[2] <= k[1] < dst[2] + n[1]]:
                    del path.mem[k]
                if not moved:
                    moved[(dst[1], dst[2])] = ("obj", ("copyof", self.objterm(src, path)))
                path.mem.update(moved)
                if tracked_region(dst[1]):
                    path.emit(("writeblk", dst[1], dst[2], n[1], moved.get((dst[1], dst[2]), ("partial",))))
                    path.bump(dst[1])
            elif is_ptr(dst) and tracked_region(dst[1]):
                path.emit(("writeblk", dst[1], dst[2], None, ("unknown",)))
                path.bump(dst[1])
            return [("ret", None, path)]
        if callee.startswith("llvm.memset"):
            dst, v, n = args[0], args[1], args[2]
            if is_ptr(dst) and dst[2] is not None and n[0] == "c":
                for k in [k for k in path.mem if k[0] == dst[1] and isinstance(k[1], int) and dst[2] <= k[1] < dst[2] + n[1]]:
                    del path.mem[k]
                path.mem[(dst[1], dst[2])] = ("obj", ("zero",)) if v == ("c", 0) else ("obj", ("memset", v))
                if tracked_region(dst[1]):
                    path.emit(("writeblk", dst[1], dst[2], n[1], path.mem[(dst[1], dst[2])]))
                    path.bump(dst[1])
            return [("ret", None, path)]
        return [("ret", ("?", callee), path)]


def tracked_type(ty):
    m = re.match(r'^%"(?:struct|class)\.boost::multi::(array|static_array|array_ref|subarray|const_subarray)(?:\.\d+)?"$', ty)
    return m.group(1) if m else None


def tracked_region(reg):
    return reg[0] in ("param", "heap") or (reg[0] == "alloca" and len(reg) > 3 and reg[3] is not None)


def unxv(v):
    while isinstance(v, tuple) and v and v[0] == "xv":
        v = v[1]
        if not (isinstance(v, tuple) and v and v[0] == "xv"):
            return v
    return None


def is_ctor(dm):
    m = re.match(r"^(.*?)::([~\w]+)\(", short(dm))
    if not m:
        return False
    cls = m.group(1).split("::")[-1]
    return m.group(2) == cls


def is_pure_value_accessor(dm):
    return bool(re.search(r"\) const( &)?$", dm))


def split_top(text):
    """split a parameter list at top-level commas"""
    out, depth, cur = [], 0, ""
    for ch in text:
        if ch in "<([":
            depth += 1
        elif ch in ">)]":
            depth -= 1
        if ch == "," and depth == 0:
            out.append(cur)
            cur = ""
        else:
            cur += ch
    if cur.strip():
        out.append(cur)
    return out


def non_const_on_tracked(dm, args):
    """an opaque non-const member call whose object lives in a tracked region may modify it"""
    if re.search(r"\) const( &| &&)?$", dm):
        return False
    # a free function (operator==(layout_t const&, layout_t const&), ...) all of whose reference / pointer parameters are to const cannot modify them
    m = re.match(r"^(?:[\w:<>,\s\*&]*?\s)?(operator\S*|[\w]+)\((.*)\)$", short(dm))
    if m and "::" not in m.group(1):
        params = [p_.strip() for p_ in split_top(m.group(2))] if m.group(2).strip() else []
        if params and all(("&" not in p_ and "*" not in p_) or "const" in p_ for p_ in params):
            return False
    return bool(args) and is_ptr(args[0]) and tracked_region(args[0][1])


def compute_may_throw(mod):
    """f may let an exception escape: it contains a non-invoke call to a may-throw callee or a resume / __cxa_throw, fixpoint"""
    thr = {}
    for n, f in mod.funcs.items():
        thr[n] = False
    changed = True
    while changed:
        changed = False
        for n, f in mod.funcs.items():
            if thr[n] or f.nounwind:
                continue
            t = False
            for b in f.blocks.values():
                for ins in b:
                    if ins.op == "resume":
                        t = True
                    elif ins.op == "call" and ins.callee and not ins.callee.startswith("llvm."):
                        if ir0.site_nounwind(mod, ins):
                            continue
                        c = ins.callee
                        if c in ("__cxa_throw", "__cxa_rethrow"):
                            t = True
                        elif c in mod.funcs:
                            t = t or thr[c]
                        elif c.startswith("%"):
                            t = True
                        elif c.startswith("__cxa_") or c in ("__clang_call_terminate",):
                            pass
                        else:
                            t = t or not mod.is_nounwind(c)
                    if t:
                        break
                if t:
                    break
            if t:
                thr[n] = True
                changed = True
    return thr


def calls_may_throw(mod, thr, fname):
    """call sites in f (call or invoke) whose callee may throw"""
    out = []
    f = mod.funcs[fname]
    for lab, b in f.blocks.items():
        for ins in b:
            if ins.op in ("call", "invoke") and ins.callee and not ins.callee.startswith("llvm."):
                if ir0.site_nounwind(mod, ins):
                    continue
                c = ins.callee
                if c in ("__cxa_throw", "__cxa_rethrow"):
                    out.append((lab, ins, c))
                elif c in mod.funcs:
                    if thr[c]:
                        out.append((lab, ins, c))
                elif c.startswith("__cxa_") or c in ("__clang_call_terminate", "__gxx_personality_v0"):
                    continue
                elif not mod.is_nounwind(c):
                    out.append((lab, ins, c))
    return out

"""Trusted specification of the view algebra (DESIGN 2.2.1): symbolic view descriptors and the documented index maps.

A symbolic view is  base-offset b  +  per dimension (stride s, first index f, size z):
the element with index tuple (j_k), f_k <= j_k < f_k+z_k, lives at  base + b + sum_k (j_k - f_k)*s_k   (unit: elements).
Every operation below is the *documented* map (README "Subarray generators", reference table, anchors of C01/C19), written
independently of the library's arithmetic.  `P` = Poly.
"""
from .poly import Poly as P


class Dim:
    __slots__ = ("s", "f", "z")

    def __init__(self, s, f, z):
        self.s, self.f, self.z = s, f, z

    def __repr__(self):
        return "(s=%r f=%r z=%r)" % (self.s, self.f, self.z)


class SymView:
    def __init__(self, b, dims):
        self.b, self.dims = b, list(dims)

    @property
    def D(self):
        return len(self.dims)

    def addr(self, idx):
        a = self.b
        for d, j in zip(self.dims, idx):
            a = a + (j - d.f) * d.s
        return a

    def num_elements(self):
        n = P.const(1)
        for d in self.dims:
            n = n * d.z
        return n

    def subst(self, env):
        return SymView(self.b.subst(env), [Dim(d.s.subst(env), d.f.subst(env), d.z.subst(env)) for d in self.dims])


def S(name):
    return P.sym(name)


def root(D, zero_based):
    return SymView(P.const(0), [Dim(S("s%d" % k), P.const(0) if zero_based else S("f%d" % k), S("z%d" % k)) for k in range(D)])


# ---- the operations ---------------------------------------------------------------------------------------------
def index(v, i):
    d0 = v.dims[0]
    return SymView(v.b + (i - d0.f) * d0.s, v.dims[1:])


def sliced(v, a, w):             # sliced(a, a+w): extension [f, f+w), i -> a + (i - f)
    d0 = v.dims[0]
    return SymView(v.b + (a - d0.f) * d0.s, [Dim(d0.s, d0.f, w)] + v.dims[1:])


def strided(v, t):               # requires t | f and t | z ; i -> t*i
    d0 = v.dims[0]
    f = d0.f.divexact(t)
    z = d0.z.divexact(t)
    assert f is not None and z is not None, "strided spec needs f = t*g, z = t*m"
    return SymView(v.b, [Dim(d0.s * t, f, z)] + v.dims[1:])


def dropped(v, c):               # [f, f+z-c), i -> i + c
    d0 = v.dims[0]
    return SymView(v.b + c * d0.s, [Dim(d0.s, d0.f, d0.z - c)] + v.dims[1:])


def taked(v, c):                 # [f, f+c), i -> i
    d0 = v.dims[0]
    return SymView(v.b, [Dim(d0.s, d0.f, c)] + v.dims[1:])


def rotated(v):
    return SymView(v.b, v.dims[1:] + v.dims[:1])


def unrotated(v):
    return SymView(v.b, v.dims[-1:] + v.dims[:-1])


def transposed(v):
    return SymView(v.b, [v.dims[1], v.dims[0]] + v.dims[2:])


def reversed_(v):
    return SymView(v.b, v.dims[::-1])


def diagonal(v, zmin):           # zero-based in dims 0,1 ; (i, r..) -> (i, i, r..)
    d0, d1 = v.dims[0], v.dims[1]
    return SymView(v.b, [Dim(d0.s + d1.s, P.const(0), zmin)] + v.dims[2:])


def partitioned(v, p, m):        # z0 = p*m ; (a, b, r..) -> (a*m + (b - f0) + f0, r..) i.e. source index a*m + b
    d0 = v.dims[0]
    return SymView(v.b, [Dim(d0.s * m, P.const(0), p), Dim(d0.s, d0.f, m)] + v.dims[1:])


def flatted(v):                  # requires s0 = z1*s1 ; result[(i0-f0)*z1 + i1] = v[i0][i1]
    d0, d1 = v.dims[0], v.dims[1]
    return SymView(v.b, [Dim(d1.s, d1.f, d0.z * d1.z)] + v.dims[2:])


def broadcasted(v):              # new leading dimension, every index designates the source
    return SymView(v.b, [Dim(P.const(0), P.const(0), S("zb"))] + v.dims)


def reindexed(v, g):             # [g, g+z), i -> i - g + f
    d0 = v.dims[0]
    return SymView(v.b, [Dim(d0.s, g, d0.z)] + v.dims[1:])


def blocked(v, a, w):            # [a, a+w), i -> i
    return reindexed(sliced(v, a, w), a)


def in_dim(v, k, fn, *args):
    """apply a dimension-0 operation to dimension k (the library does this by rotate / op / unrotate)"""
    w = SymView(v.b, v.dims[k:] + v.dims[:k])
    w = fn(w, *args)
    n = w.D
    kk = k % n if n else 0
    return SymView(w.b, w.dims[n - kk:] + w.dims[:n - kk]) if n else w

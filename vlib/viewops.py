"""Driver generation + obligation evaluation for the view algebra (shared by C01, C19, C02, C12).

For each operation `op`, source dimensionality D and mode (zero-based / free index bases) one extern "C" function is generated
that builds an *arbitrary* view from its raw descriptor (base, stride_k, offset_k, nelems_k) through the public constructors,
applies `op`, and stores the observables of the result into an out-array:
  out[0] = &w[i0]..[i_{D'-1}] - base      out[1] = w.size()   out[2] = w.num_elements()   out[3] = w.is_empty()
  per result dimension k:  out[4+6k..] = extension_k.first(), sizes_k, strides_k, raw stride, raw offset, raw nelems
The optimised IR is evaluated symbolically (vlib.irval) under the layout invariant  offset = first*stride, nelems = size*stride
and compared with the closed forms that the specification (vlib.viewspec) prescribes.
"""
import os
import random
import re

from . import common, irval, viewspec as vs
from .poly import Poly as P, POS, NEG, NONZERO, NONNEG, NONPOS, ANY, ZERO

PRELUDE = r"""
#include <boost/multi/array.hpp>
#include <tuple>
#include <array>
namespace multi = boost::multi;
static inline auto mk0() { return multi::layout_t<0>{multi::monostate{}, multi::monostate{}, 0, 1}; }
static inline auto mk1(long s0, long o0, long n0) { return multi::layout_t<1>{mk0(), s0, o0, n0}; }
static inline auto mk2(long s0, long o0, long n0, long s1, long o1, long n1) { return multi::layout_t<2>{mk1(s1, o1, n1), s0, o0, n0}; }
static inline auto mk3(long s0, long o0, long n0, long s1, long o1, long n1, long s2, long o2, long n2) { return multi::layout_t<3>{mk2(s1, o1, n1, s2, o2, n2), s0, o0, n0}; }
static inline auto mk4(long s0, long o0, long n0, long s1, long o1, long n1, long s2, long o2, long n2, long s3, long o3, long n3) { return multi::layout_t<4>{mk3(s1, o1, n1, s2, o2, n2, s3, o3, n3), s0, o0, n0}; }
template<int K, class L> constexpr decltype(auto) subk(L const& l) { if constexpr(K == 0) { return (l); } else { return subk<K - 1>(l.sub()); } }
template<int K, int D, class W> inline void obs_dim(W const& w, long* out) {
	using std::get;
	out[4 + 6*K + 0] = get<K>(w.extensions()).first();
	out[4 + 6*K + 1] = get<K>(w.sizes());
	out[4 + 6*K + 2] = get<K>(w.strides());
	auto const& l = subk<K>(w.layout());
	out[4 + 6*K + 3] = l.stride(); out[4 + 6*K + 4] = l.offset(); out[4 + 6*K + 5] = l.nelems();
	if constexpr(K + 1 < D) { obs_dim<K + 1, D>(w, out); }
}
template<class E> inline long eaddr(E const& e, void const* base) { return reinterpret_cast<char const*>(&e) - reinterpret_cast<char const*>(base); }
template<class W, std::enable_if_t<std::is_arithmetic_v<std::decay_t<W>>, int> = 0>
inline void observe(W&& w, void const* base, long* out, long, long, long, long, long) { out[0] = eaddr(w, base); }
template<class W, std::enable_if_t<std::is_arithmetic_v<std::decay_t<W>>, int> = 0>
inline void observe_addr_only(W&& w, void const* base, long* out, long, long, long, long, long) { out[0] = eaddr(w, base); }
template<class W, std::enable_if_t<!std::is_arithmetic_v<std::decay_t<W>>, int> = 0>
inline void observe(W&& w, void const* base, long* out, long i0, long i1, long i2, long i3, long i4) {
	constexpr int D = std::decay_t<W>::rank_v;
	if constexpr(D == 1) { out[0] = eaddr(w[i0], base); }
	if constexpr(D == 2) { out[0] = eaddr(w[i0][i1], base); }
	if constexpr(D == 3) { out[0] = eaddr(w[i0][i1][i2], base); }
	if constexpr(D == 4) { out[0] = eaddr(w[i0][i1][i2][i3], base); }
	if constexpr(D == 5) { out[0] = eaddr(w[i0][i1][i2][i3][i4], base); }
	out[1] = w.size(); out[2] = w.num_elements(); out[3] = w.is_empty() ? 1 : 0;
	obs_dim<0, D>(w, out);
}
template<class W, std::enable_if_t<!std::is_arithmetic_v<std::decay_t<W>>, int> = 0>
inline void observe_addr_only(W&& w, void const* base, long* out, long i0, long i1, long i2, long i3, long i4) {
	constexpr int D = std::decay_t<W>::rank_v;
	if constexpr(D == 1) { out[0] = eaddr(w[i0], base); }
	if constexpr(D == 2) { out[0] = eaddr(w[i0][i1], base); }
	if constexpr(D == 3) { out[0] = eaddr(w[i0][i1][i2], base); }
	if constexpr(D == 4) { out[0] = eaddr(w[i0][i1][i2][i3], base); }
	if constexpr(D == 5) { out[0] = eaddr(w[i0][i1][i2][i3][i4], base); }
}
"""

ELEM = 8  # sizeof(double): addresses are compared in bytes


class Op:
    def __init__(self, name, mind, expr, args, spec, cases=None, maxd=4, signs=None, addr_only=False, c19=True, c01=True, scalar=False,
                 needs_lvalue=False):
        self.name, self.mind, self.maxd, self.expr, self.args, self.spec = name, mind, maxd, expr, args, spec
        self.cases = cases or (lambda D, zb: [dict()])
        self.signs = signs or {}
        self.addr_only, self.c19, self.c01, self.scalar = addr_only, c19, c01, scalar
        self.needs_lvalue = needs_lvalue


def A(n):
    return P.sym(n)


def _case_strided(D, zb):
    env = {"z0": A("t") * A("m")}
    if not zb:
        env["f0"] = A("t") * A("g")
    return [env]


def _case_diag(D, zb):
    pos = {"e": POS, "s0": POS, "s1": POS}   # diagonal stride s0+s1 must not vanish: strides of equal sign
    neg = {"e": POS, "s0": NEG, "s1": NEG}
    out = []
    for sg in (pos, neg):
        out += [{"z0": A("z1") + A("e"), "__zmin": A("z1"), "__signs": sg},
                {"z1": A("z0") + A("e"), "__zmin": A("z0"), "__signs": sg},
                {"z1": A("z0"), "__zmin": A("z0"), "__signs": sg}]
    return out


OPS = [
    Op("identity", 1, "v()", [], lambda v, a, c: v),
    Op("index", 1, "v[i]", ["i"], lambda v, a, c: vs.index(v, a["i"])),
    Op("call_i", 1, "v(i)", ["i"], lambda v, a, c: vs.index(v, a["i"])),
    Op("sliced", 1, "v.sliced(a, a + w)", ["a", "w"], lambda v, a, c: vs.sliced(v, a["a"], a["w"]), signs={"w": POS}),
    Op("range", 1, "v.range(multi::irange{a, a + w})", ["a", "w"], lambda v, a, c: vs.sliced(v, a["a"], a["w"]), signs={"w": POS}),
    Op("call_rng", 1, "v(multi::irange{a, a + w})", ["a", "w"], lambda v, a, c: vs.sliced(v, a["a"], a["w"]), signs={"w": POS}),
    Op("strided", 1, "v.strided(t)", ["t"], lambda v, a, c: vs.strided(v, a["t"]), cases=_case_strided, signs={"t": POS, "m": POS}),
    Op("sliced3", 1, "v.sliced(a, a + t*m, t)", ["a", "t", "m"],
       lambda v, a, c: vs.strided(vs.sliced(v, a["a"], a["t"] * a["m"]), a["t"]),
       cases=lambda D, zb: [dict()] if zb else [{"f0": A("t") * A("g")}], signs={"t": POS, "m": POS}),
    Op("dropped", 1, "v.dropped(c)", ["c"], lambda v, a, c: vs.dropped(v, a["c"]), cases=lambda D, zb: [{"z0": A("c") + A("r")}], signs={"r": POS, "c": NONNEG}),
    Op("taked", 1, "v.taked(c)", ["c"], lambda v, a, c: vs.taked(v, a["c"]), signs={"c": POS}),
    Op("rotated", 1, "v.rotated()", [], lambda v, a, c: vs.rotated(v)),
    Op("unrotated", 1, "v.unrotated()", [], lambda v, a, c: vs.unrotated(v)),
    Op("transposed", 2, "v.transposed()", [], lambda v, a, c: vs.transposed(v)),
    Op("op~", 2, "~v", [], lambda v, a, c: vs.transposed(v)),
    Op("reversed", 1, "v.reversed()", [], lambda v, a, c: vs.reversed_(v)),
    Op("diagonal", 2, "v.diagonal()", [], lambda v, a, c: vs.diagonal(v, c["__zmin"]), cases=_case_diag, c19=False),
    Op("partitioned", 1, "v.partitioned(p)", ["p"], lambda v, a, c: vs.partitioned(v, a["p"], A("m")),
       cases=lambda D, zb: [{"z0": A("p") * A("m")}], signs={"p": POS, "m": POS}, maxd=3),
    Op("chunked", 1, "v.chunked(c)", ["c"], lambda v, a, c: vs.partitioned(v, A("m"), a["c"]),
       cases=lambda D, zb: [{"z0": A("c") * A("m")}], signs={"c": POS, "m": POS}, maxd=3),
    Op("halved", 1, "v.halved()", [], lambda v, a, c: vs.partitioned(v, P.const(2), A("m")),
       cases=lambda D, zb: [{"z0": 2 * A("m")}], signs={"m": POS}, maxd=3),
    Op("flatted", 2, "v.flatted()", [], lambda v, a, c: vs.flatted(v), cases=lambda D, zb: [{"s0": A("z1") * A("s1")}, {"z0": P.const(1), "__name": "one row, any stride"}]),
    Op("broadcasted", 1, "v.broadcasted()", [], lambda v, a, c: vs.broadcasted(v), addr_only=True, maxd=3),
    Op("call_ij", 2, "v(i, j)", ["i", "j"], lambda v, a, c: vs.index(vs.index(v, a["i"]), a["j"])),
    Op("call_rng_rng", 2, "v(multi::irange{a, a + w}, multi::irange{c, c + u})", ["a", "w", "c", "u"],
       lambda v, a, c: vs.in_dim(vs.sliced(v, a["a"], a["w"]), 1, vs.sliced, a["c"], a["u"]), signs={"w": POS, "u": POS}),
    Op("call_i_rng", 2, "v(i, multi::irange{c, c + u})", ["i", "c", "u"],
       lambda v, a, c: vs.sliced(vs.index(v, a["i"]), a["c"], a["u"]), signs={"u": POS}),
    Op("call_rng_j", 2, "v(multi::irange{a, a + w}, j)", ["a", "w", "j"],
       lambda v, a, c: vs.in_dim(vs.sliced(v, a["a"], a["w"]), 1, vs.index, a["j"]), signs={"w": POS}),
    Op("call_all_j", 2, "v(multi::_, j)", ["j"], lambda v, a, c: vs.in_dim(v, 1, vs.index, a["j"])),
    Op("call_i_rng_k", 3, "v(i, multi::irange{c, c + u}, k)", ["i", "c", "u", "k"],
       lambda v, a, c: vs.in_dim(vs.sliced(vs.index(v, a["i"]), a["c"], a["u"]), 1, vs.index, a["k"]), signs={"u": POS}),
    Op("call_rng_j_rng", 3, "v(multi::irange{a, a + w}, j, multi::irange{c, c + u})", ["a", "w", "j", "c", "u"],
       lambda v, a, c: vs.in_dim(vs.in_dim(vs.sliced(v, a["a"], a["w"]), 1, vs.index, a["j"]), 1, vs.sliced, a["c"], a["u"]),
       signs={"w": POS, "u": POS}),
    Op("reindexed", 1, "v.reindexed(g)", ["g"], lambda v, a, c: vs.reindexed(v, a["g"]), c01=False),
    Op("reindexed2", 2, "v.reindexed(g, h)", ["g", "h"], lambda v, a, c: vs.in_dim(vs.reindexed(v, a["g"]), 1, vs.reindexed, a["h"]), c01=False),
    Op("blocked", 1, "v.blocked(a, a + w)", ["a", "w"], lambda v, a, c: vs.blocked(v, a["a"], a["w"]), signs={"w": POS}, c01=False, needs_lvalue=True),
    Op("stenciled", 1, "v.stenciled(multi::iextension{a, a + w})", ["a", "w"], lambda v, a, c: vs.blocked(v, a["a"], a["w"]),
       signs={"w": POS}, c01=False, needs_lvalue=True),
    Op("stenciled2", 2, "v.stenciled(multi::iextension{a, a + w}, multi::iextension{c, c + u})", ["a", "w", "c", "u"],
       lambda v, a, c: vs.in_dim(vs.blocked(v, a["a"], a["w"]), 1, vs.blocked, a["c"], a["u"]), signs={"w": POS, "u": POS}, c01=False,
       needs_lvalue=True),
    Op("stenciled3", 3, "v.stenciled(multi::iextension{a, a + w}, multi::iextension{c, c + u}, multi::iextension{e, e + t})", ["a", "w", "c", "u", "e", "t"],
       lambda v, a, c: vs.in_dim(vs.in_dim(vs.blocked(v, a["a"], a["w"]), 1, vs.blocked, a["c"], a["u"]), 2, vs.blocked, a["e"], a["t"]),
       signs={"w": POS, "u": POS, "t": POS}, c01=False, needs_lvalue=True),
    Op("stenciled4", 4, "v.stenciled(multi::iextension{a, a + w}, multi::iextension{c, c + u}, multi::iextension{e, e + t}, multi::iextension{g, g + h})",
       ["a", "w", "c", "u", "e", "t", "g", "h"],
       lambda v, a, c: vs.in_dim(vs.in_dim(vs.in_dim(vs.blocked(v, a["a"], a["w"]), 1, vs.blocked, a["c"], a["u"]), 2, vs.blocked, a["e"], a["t"]), 3, vs.blocked, a["g"], a["h"]),
       signs={"w": POS, "u": POS, "t": POS, "h": POS}, c01=False, needs_lvalue=True),
    Op("begin+m", 2, "*(v.begin() + m)", ["m"], lambda v, a, c: vs.index(v, v.dims[0].f + a["m"])),
]
OPS_BY_NAME = {o.name: o for o in OPS}

OBS = ["first", "size", "stride", "raw.stride", "raw.offset", "raw.nelems"]


def fname(op, D, zb):
    return "f_%s_D%d" % (re.sub(r"[^A-Za-z0-9]", "_", op.name), D)


def variants(ops_ds, wd, tag):
    """The same operations applied to the view as an rvalue (std::move(v)) and as a const lvalue (std::as_const(v)): same specification.  Only the
    forms that compile are returned (a front-end probe, one candidate per line; forms that do not exist for a value category are not obligations)."""
    import copy
    from . import witness
    cands = []
    for op, D in ops_ds:
        if len(re.findall(r"\bv\b", op.expr)) != 1:
            continue
        for suffix, repl in (("&&", "std::move(v)"), ("const&", "std::as_const(v)")):
            o2 = copy.copy(op)
            o2.name = op.name + suffix
            o2.expr = re.sub(r"\bv\b", repl, op.expr)
            cands.append((o2, D))
    lines = ["#include <boost/multi/array.hpp>", "#include <utility>", "namespace multi = boost::multi;"]
    index = {}
    for k, (op, D) in enumerate(cands):
        oargs = "".join(", long %s" % a for a in op.args)
        lines.append("void probe_%d(multi::subarray<double, %d>& v%s) { auto&& r = %s; (void)r; }" % (k, D, oargs, op.expr))
        index[len(lines)] = k
    tu = os.path.join(wd, "probe_%s.cpp" % tag)
    with open(tu, "w") as fh:
        fh.write("\n".join(lines) + "\n")
    rc, diags, raw = witness.compile_tu(tu)
    bad = set()
    for e, notes in witness.group_errors(diags):
        line = witness.attribute(e, notes, tu)
        if line in index:
            bad.add(index[line])
        else:
            raise common.AnalysisBroken("value-category probe: error outside the candidate lines: " + e["msg"][:200])
    return [c for k, c in enumerate(cands) if k not in bad], len(bad)


def gen_driver(wd, ops_ds, tag):
    """ops_ds: list of (op, D).  Returns path of the generated TU."""
    out = [PRELUDE]
    for op, D in ops_ds:
        desc = ", ".join("long s%d, long o%d, long n%d" % (k, k, k) for k in range(D))
        dargs = ", ".join("s%d, o%d, n%d" % (k, k, k) for k in range(D))
        oargs = "".join(", long %s" % a for a in op.args)
        out.append('extern "C" void %s(double* base, %s%s, long i0, long i1, long i2, long i3, long i4, long* out) {' % (fname(op, D, None), desc, oargs))
        out.append("\tmulti::subarray<double, %d> v(mk%d(%s), base);" % (D, D, dargs))
        out.append("\t%s(%s, base, out, i0, i1, i2, i3, i4);" % ("observe_addr_only" if op.addr_only else "observe", op.expr))
        out.append("}")
    path = os.path.join(wd, "drv_%s.cpp" % tag)
    with open(path, "w") as fh:
        fh.write("\n".join(out) + "\n")
    return path


def descriptor_args(D, zero_based, env):
    """polynomial arguments for (s_k, o_k, n_k) under the layout invariant and the case substitution env"""
    args = []
    for k in range(D):
        s = A("s%d" % k).subst(env)
        f = (P.const(0) if zero_based else A("f%d" % k)).subst(env)
        z = A("z%d" % k).subst(env)
        args += [s, f * s, z * s]
    return args


def base_signs(D):
    sg = {"base": POS, "out": POS}
    for k in range(5):
        sg["s%d" % k] = NONZERO
        sg["z%d" % k] = POS
    return sg


def has_ite(p):
    return any("ite[" in s for s in p.symbols())


def concrete_witness(got, want, signs, seed=0, tries=400):
    rnd = random.Random(seed)
    syms = sorted((got.symbols() | want.symbols()))
    base = set()
    for s in syms:
        for t in re.findall(r"[A-Za-z_]\w*", s):
            base.add(t)
    base -= {"div", "ite"}

    def ev(p, env):
        e2 = dict(env)
        for s in p.symbols():
            if s in e2:
                continue
            if s.startswith("div["):
                kind, args = irval._atoms[s]
                a, b = ev(args[0], env), ev(args[1], env)
                if b == 0:
                    raise ZeroDivisionError
                q = abs(a) // abs(b)
                e2[s] = q if (a >= 0) == (b > 0) else -q
            else:
                raise KeyError(s)
        return p.evaluate(e2)
    for _ in range(tries):
        env = {}
        for s in base:
            cls = signs.get(s, ANY)
            if cls == POS:
                env[s] = rnd.randint(1, 5)
            elif cls == NEG:
                env[s] = -rnd.randint(1, 5)
            elif cls == NONNEG:
                env[s] = rnd.randint(0, 4)
            elif cls == NONZERO:
                env[s] = rnd.choice([-3, -2, -1, 1, 2, 3])
            elif cls == ZERO:
                env[s] = 0
            else:
                env[s] = rnd.randint(-4, 6)
        if not facts_hold(signs, env):
            continue
        try:
            g, w = ev(got, env), ev(want, env)
        except (ZeroDivisionError, KeyError):
            continue
        if g != w:
            return dict(assignment=env, got=str(g), want=str(w))
    return None


def eval_poly(p, env):
    """integer value of a polynomial under an assignment of its base symbols; div[...] atoms (truncating division) are evaluated recursively;
    raises KeyError for other uninterpreted atoms, ZeroDivisionError for a zero divisor"""
    e2 = dict(env)
    for s_ in p.symbols():
        if s_ in e2:
            continue
        if s_.startswith("div["):
            kind, args = irval._atoms[s_]
            a, b = eval_poly(args[0], env), eval_poly(args[1], env)
            if b == 0:
                raise ZeroDivisionError
            q = abs(a) // abs(b)
            e2[s_] = q if (a >= 0) == (b > 0) else -q
        else:
            raise KeyError(s_)
    return p.evaluate(e2)


def sample_env(names, signs, rnd):
    env = {}
    for s in names:
        cls = signs.get(s, ANY)
        if cls == POS:
            env[s] = rnd.randint(1, 5)
        elif cls == NEG:
            env[s] = -rnd.randint(1, 5)
        elif cls == NONNEG:
            env[s] = rnd.randint(0, 4)
        elif cls == NONPOS:
            env[s] = -rnd.randint(0, 4)
        elif cls == NONZERO:
            env[s] = rnd.choice([-3, -2, -1, 1, 2, 3])
        elif cls == ZERO:
            env[s] = 0
        else:
            env[s] = rnd.randint(-4, 6)
    return env


def concrete_disagreement(ev, fn, args, signs, wants, seed=0, tries=80):
    """When the symbolic evaluation of a case is inconclusive (the library's control flow depends on values the case does not fix), the same IR is
    evaluated on concrete members of the case class (all symbols but the base / out addresses replaced by small integers of their sign class) and
    compared with the specification at the same member.  Returns a witness dict for the first disagreement, else None.
    wants: {byte offset in the out array: Poly}."""
    rnd = random.Random(seed)
    names = set()
    for a in list(args) + list(wants.values()):
        if isinstance(a, P):
            for sy in a.symbols():
                for t in re.findall(r"[A-Za-z_]\w*", sy):
                    names.add(t)
    names -= {"base", "out", "div", "ite", "float"}
    names = sorted(names)
    decided = 0
    # few symbols: every member with small values of each symbol's sign class (special layouts such as gap-free permuted ones are rare under sampling)
    small = {POS: (1, 2, 3), NEG: (-1, -2, -3), NONNEG: (0, 1, 2), NONPOS: (0, -1, -2), NONZERO: (-2, -1, 1, 2), ZERO: (0,)}
    cand = [small.get(signs.get(nm, ANY), (-1, 0, 1, 2)) for nm in names]
    total = 1
    for c_ in cand:
        total *= len(c_)
    if total <= 6000:
        import itertools
        members = [dict(zip(names, vals)) for vals in itertools.product(*cand)]
        rnd.shuffle(members)
    else:
        members = (sample_env(names, signs, rnd) for _ in range(tries))
    for env in members:
        if not facts_hold(signs, env):
            continue
        penv = {k: P.const(v) for k, v in env.items()}
        try:
            cargs = [a.subst(penv) if isinstance(a, P) else a for a in args]
            ev.run(fn, cargs, signs)
        except (irval.Inconclusive, irval.AssertFires, ZeroDivisionError, KeyError):
            continue
        decided += 1
        st = ev.stores
        for off, w in wants.items():
            g = st.get(off)
            if g is None:
                continue
            try:
                wv = P.const(eval_poly(w, env))
            except (KeyError, ZeroDivisionError):
                continue
            if any(sy.startswith("div[") or sy.startswith("ite[") for sy in g.symbols()):
                continue
            if g != wv:
                return dict(assignment=env, observable_offset=off, got=repr(g), want=repr(wv), members_evaluated=decided)
    return None



# ---- case splitting on comparisons that the declared case does not fix ----------------------------------------------------------------------
MAX_SPLIT_DEPTH = 12
MAX_SPLIT_LEAVES = 400
_IDENT = re.compile(r"^[A-Za-z_]\w*$")


def facts_hold(signs, env):
    """do the sub-case's assumed facts hold at a concrete member?  (members that violate them are outside the sub-case)"""
    ok = {POS: lambda v: v > 0, NEG: lambda v: v < 0, ZERO: lambda v: v == 0, NONNEG: lambda v: v >= 0, NONPOS: lambda v: v <= 0, NONZERO: lambda v: v != 0}
    for q, cls in (signs.get("__facts") or []):
        try:
            v = eval_poly(q, env)
        except (KeyError, ZeroDivisionError):
            return False          # an assumption that cannot be evaluated at this member: the member is not known to belong to the sub-case
        if cls in ok and not ok[cls](v):
            return False
    return True


def _refine(signs, d, cls):
    """signs extended by the assumption `d has class cls`; None when that contradicts what is already known (the sub-case is empty)"""
    from .poly import meet, sign as psign, negcls
    cur = psign(d, signs)
    m = meet(cur, cls)
    if m is None:
        return None
    s2 = dict(signs)
    # a single symbol: refine its class directly (every later sign computation sees it)
    mons = [(mn, co) for mn, co in d.t.items() if mn != ()]
    c0 = d.t.get((), 0)
    if len(mons) == 1 and c0 == 0 and len(mons[0][0]) == 1 and mons[0][0][0][1] == 1 and _IDENT.match(mons[0][0][0][0]):
        sym, co = mons[0][0][0][0], mons[0][1]
        s2[sym] = meet(signs.get(sym, ANY), cls if co > 0 else negcls(cls)) or signs.get(sym, ANY)
        return s2
    s2["__facts"] = list(signs.get("__facts") or []) + [(d, m)]
    return s2


def subcases(rel, signs):
    """[(description, substitution or None, signs)] partitioning the current case on the comparison rel = (pred, a, b); [] when it cannot be split"""
    from .poly import meet, sign as psign
    pred, a, b = rel
    if not (isinstance(a, P) and isinstance(b, P)):
        return []
    d = a - b
    if d.is_const():
        return []
    out = []
    if pred in ("eq", "ne"):
        done = False
        # c*x*y*... == +-c with integer symbols: every factor is 1 or -1 (how a unit stride made of two factors is tested)
        nz = [(mn, co) for mn, co in d.t.items() if mn != ()]
        k0 = d.t.get((), 0)
        if len(nz) == 1 and k0 != 0 and all(e_ == 1 for sy_, e_ in nz[0][0]) and all(_IDENT.match(sy_) for sy_, e_ in nz[0][0]) and abs(k0) == abs(nz[0][1]) and len(nz[0][0]) <= 4:
            import itertools
            syms_ = [sy_ for sy_, e_ in nz[0][0]]
            target = -k0 / nz[0][1]          # product of the symbols
            for vals in itertools.product((1, -1), repeat=len(syms_)):
                pr = 1
                for v_ in vals:
                    pr *= v_
                if pr != target:
                    continue
                if any(meet(signs.get(sy_, ANY), POS if v_ > 0 else NEG) is None for sy_, v_ in zip(syms_, vals)):
                    continue
                sub_ = {sy_: P.const(v_) for sy_, v_ in zip(syms_, vals)}
                s2 = {k_: v_ for k_, v_ in signs.items() if k_ != "__facts"}
                for q_, c_ in (signs.get("__facts") or []):
                    if s2 is None:
                        break
                    q2 = q_.subst(sub_)
                    if q2.is_const():
                        v2 = q2.const_value()
                        if not {POS: v2 > 0, NEG: v2 < 0, ZERO: v2 == 0, NONNEG: v2 >= 0, NONPOS: v2 <= 0, NONZERO: v2 != 0}.get(c_, True):
                            s2 = None
                    else:
                        s2 = _refine(s2, q2, c_)
                if s2 is not None:
                    out.append((" & ".join("%s=%d" % (sy_, v_) for sy_, v_ in zip(syms_, vals)), sub_, s2))
            s3 = _refine(signs, d, NONZERO)
            if s3 is not None:
                out.append(("%r!=0" % d, None, s3))
            return out
        # a single monomial c*x*y*...: it vanishes exactly when one of its factors does; when all factors but one are known to be non-zero, that one is zero
        if len(d.t) == 1 and () not in d.t:
            (mn, co), = d.t.items()
            cands = [sy for sy, e_ in mn if signs.get(sy, ANY) not in (POS, NEG, NONZERO)]
            if len(cands) == 1 and _IDENT.match(cands[0]) and cands[0] not in ("base", "out"):
                sym = cands[0]
                d = P.sym(sym)          # the comparison is equivalent to sym == 0 / sym != 0
        # d == 0 where every monomial has the same weak sign (a position written in digits, a sum of sizes): every monomial vanishes, so every
        # symbol that stands alone in a monomial is zero
        if d.t.get((), 0) == 0:
            mcls = [psign(P({mn: co}), signs) for mn, co in d.t.items()]
            if all(c_ in (POS, NONNEG, ZERO) for c_ in mcls) or all(c_ in (NEG, NONPOS, ZERO) for c_ in mcls):
                done = True
                if not any(c_ in (POS, NEG) for c_ in mcls):
                    sub0 = {}
                    for mn, co in d.t.items():
                        # a vanishing monomial: the one factor that is not known to be non-zero vanishes
                        cands_ = [sy for sy, e_ in mn if signs.get(sy, ANY) not in (POS, NEG, NONZERO)]
                        if len(cands_) == 1 and _IDENT.match(cands_[0]) and cands_[0] not in ("base", "out"):
                            sub0[cands_[0]] = P.const(0)
                    if sub0 and all(meet(signs.get(sy, ANY), ZERO) is not None for sy in sub0):
                        s2 = {k_: v_ for k_, v_ in signs.items() if k_ != "__facts"}
                        for q_, c_ in (signs.get("__facts") or []):
                            if s2 is None:
                                break
                            q2 = q_.subst(sub0)
                            if q2.is_const():
                                v_ = q2.const_value()
                                if not {POS: v_ > 0, NEG: v_ < 0, ZERO: v_ == 0, NONNEG: v_ >= 0, NONPOS: v_ <= 0, NONZERO: v_ != 0}.get(c_, True):
                                    s2 = None
                            else:
                                s2 = _refine(s2, q2, c_)
                        rest = d.subst(sub0)
                        if s2 is not None and not rest.is_zero():
                            s2 = _refine(s2, rest, ZERO)
                        if s2 is not None:
                            out.append((" & ".join("%s=0" % sy for sy in sorted(sub0)), sub0, s2))
                    else:
                        s2 = _refine(signs, d, ZERO)
                        if s2 is not None:
                            out.append(("%r=0" % d, None, s2))
        # d == 0: solve for a symbol that occurs only linearly with coefficient +-1, so that the sub-case is again a polynomial case
        for mn, co in (() if done else d.t.items()):
            if len(mn) == 1 and mn[0][1] == 1 and abs(co) == 1 and _IDENT.match(mn[0][0]) and mn[0][0] not in ("base", "out"):
                sym = mn[0][0]
                rest = d - P({mn: co})
                val = rest * (-1 if co == 1 else 1)
                if sym in val.symbols():
                    continue
                cls = signs.get(sym, ANY)
                if meet(psign(val, signs), cls) is None:
                    done = True        # the equality cannot hold in this case: only the != sub-case remains
                    break
                # carry the assumptions made so far over to the substituted case (a contradiction makes the sub-case empty)
                s2 = {k_: v_ for k_, v_ in signs.items() if k_ != "__facts"}
                pend = [(q_.subst({sym: val}), c_) for q_, c_ in (signs.get("__facts") or [])]
                if cls != ANY:
                    pend.append((val, cls))
                for q_, c_ in pend:
                    if s2 is None:
                        break
                    if q_.is_const():
                        v_ = q_.const_value()
                        okc = {POS: v_ > 0, NEG: v_ < 0, ZERO: v_ == 0, NONNEG: v_ >= 0, NONPOS: v_ <= 0, NONZERO: v_ != 0}.get(c_, True)
                        if not okc:
                            s2 = None
                    else:
                        s2 = _refine(s2, q_, c_)
                if s2 is not None:
                    out.append(("%s=%r" % (sym, val), {sym: val}, s2))
                done = True
                break
        if not done:
            s2 = _refine(signs, d, ZERO)
            if s2 is not None:
                out.append(("%r=0" % d, None, s2))
        s3 = _refine(signs, d, NONZERO)
        if s3 is not None:
            out.append(("%r!=0" % d, None, s3))
        return out
    parts = {"slt": (NEG, NONNEG), "sle": (NONPOS, POS), "sgt": (POS, NONPOS), "sge": (NONNEG, NEG)}.get(pred)
    if parts is None:
        return []
    names = {NEG: "<0", NONNEG: ">=0", NONPOS: "<=0", POS: ">0"}
    for cls in parts:
        s2 = _refine(signs, d, cls)
        if s2 is not None:
            out.append(("%r%s" % (d, names[cls]), None, s2))
    return out



def deep_subst(p, sub, signs):
    """substitution that also reaches the operands of uninterpreted atoms (div[a|b], ite[c|x|y]): the atom is rebuilt from the substituted operands
    (a division may then simplify)"""
    if not isinstance(p, P):
        return p
    sub = sub or {}
    env = dict(sub)
    for sy in p.symbols():
        if sy in env or sy not in irval._atoms:
            continue
        kind, args = irval._atoms[sy]
        nargs = [deep_subst(a, sub, signs) if isinstance(a, P) else a for a in args]
        if kind == "div":
            env[sy] = irval.sdiv(nargs[0], nargs[1], signs)
        elif kind == "ite":
            env[sy] = nargs[1] if (isinstance(nargs[1], P) and nargs[1] == nargs[2]) else irval.atom("ite", *nargs)
            if sy in irval.ITE_REL and not (isinstance(nargs[1], P) and nargs[1] == nargs[2]):
                pr, a_, b_ = irval.ITE_REL[sy]
                irval.ITE_REL[next(iter(env[sy].symbols()))] = (pr, deep_subst(a_, sub, signs), deep_subst(b_, sub, signs))
    return p.subst(env)


def deep_subst_view(v, sub, signs):
    return vs.SymView(deep_subst(v.b, sub, signs), [vs.Dim(deep_subst(d.s, sub, signs), deep_subst(d.f, sub, signs), deep_subst(d.z, sub, signs)) for d in v.dims])


_leafcount = [0]


def _inner_ite_rel(rel, depth=0):
    if depth > 6:
        return None
    for q in rel[1:]:
        if not isinstance(q, P):
            continue
        for sy in q.symbols():
            if sy.startswith("ite[") and sy in irval.ITE_REL:
                r = irval.ITE_REL[sy]
                return _inner_ite_rel(r, depth + 1) or r
            if sy in irval._atoms:
                kind, args = irval._atoms[sy]
                r = _inner_ite_rel((None,) + tuple(a for a in args if isinstance(a, P)), depth + 1)
                if r is not None:
                    return r
    return None


def split_run(ev, fn, args, signs, depth=0, desc="", subst=None, offs=None):
    """Evaluate fn symbolically; where the library branches (or selects) on a comparison that the case does not fix, partition the case on that
    comparison and evaluate each part again (each part is a polynomial case: an equality is solved for a symbol and substituted, the other parts
    are sign assumptions).  Returns the leaves [(description, substitution, signs, args, stores or None, exception or None)]."""
    exc = st = rel = None
    try:
        ev.run(fn, args, signs)
        st = dict(ev.stores)
        for off_, g in st.items():
            if offs is not None and off_ not in offs:
                continue          # an observable nobody compares
            if isinstance(g, P):
                for sy in g.symbols():
                    if sy.startswith("ite[") and sy in irval.ITE_REL:
                        rel = irval.ITE_REL[sy]
                        break
            if rel is not None:
                break
    except irval.Inconclusive as e:
        exc = e
        rel = getattr(e, "rel", None)
    except irval.AssertFires as e:
        return [(desc, subst or {}, signs, args, None, e)]
    if rel is not None:
        # a comparison over a value that is itself a selection (ite[...], possibly inside a division): decide the selection's own condition first
        inner = _inner_ite_rel(rel)
        if inner is not None:
            rel = inner
    if rel is None or depth >= MAX_SPLIT_DEPTH:
        return [(desc, subst or {}, signs, args, st, exc)]
    subs = subcases(rel, signs)
    if len(subs) == 0 or _leafcount[0] > MAX_SPLIT_LEAVES:
        return [(desc, subst or {}, signs, args, st, exc)]
    if depth == 0:
        _leafcount[0] = 0
    _leafcount[0] += len(subs)
    out = []
    for d2, sub2, signs2 in subs:
        args2 = [a.subst(sub2) if (sub2 and isinstance(a, P)) else a for a in args]
        comp = {k: (v.subst(sub2) if sub2 else v) for k, v in (subst or {}).items()}
        if sub2:
            comp.update(sub2)
        out += split_run(ev, fn, args2, signs2, depth + 1, (desc + " & " if desc else "") + d2, comp, offs)
    return out


class ViewRun:
    """compile + evaluate a set of (op, D) in one mode; yields obligations into a Report"""

    def __init__(self, rep, pid, zero_based, wd):
        self.rep, self.pid, self.zb, self.wd = rep, pid, zero_based, wd

    def compile_shards(self, ops_ds, nshards=8):
        shards = [ops_ds[i::nshards] for i in range(nshards) if ops_ds[i::nshards]]

        def one(t):
            i, sh = t
            src = gen_driver(self.wd, sh, "%s_%s_%d" % (self.pid, "zb" if self.zb else "fb", i))
            ll = src[:-4] + ".ll"
            text = irval.emit_ir(src, ll, defines=("-DNDEBUG", "-fno-vectorize", "-fno-slp-vectorize"))
            return irval.parse_module(text), os.path.basename(src)
        from . import witness
        res = witness.parallel(one, list(enumerate(shards)))
        funcs, structs = {}, {}
        for (f, s), name in res:
            funcs.update(f)
            structs.update(s)
            self.rep.units.add(name)
        self.ev = irval.Evaluator(funcs, structs)

    def check_op(self, op, D, fam_prefix):
        rep = self.rep
        for ci, case in enumerate(op.cases(D, self.zb)):
            env = {k: v for k, v in case.items() if not k.startswith("__")}
            signs = base_signs(D)
            signs.update(op.signs)
            signs.update(case.get("__signs", {}))
            argsyms = {a: A(a) for a in op.args}
            v0 = vs.root(D, self.zb).subst(env)
            try:
                want_view = op.spec(v0, argsyms, case)
            except AssertionError as e:
                rep.break_("spec of %s D=%d not applicable: %s" % (op.name, D, e))
                continue
            Dp = want_view.D
            idx = [A("i%d" % k) for k in range(5)]
            args = [A("base")] + descriptor_args(D, self.zb, env) + [argsyms[a] for a in op.args] + idx + [A("out")]
            tag = "%s,D=%d%s" % (op.name, D, (",case%d" % ci) if len(op.cases(D, self.zb)) > 1 else "")
            fn_ = fname(op, D, self.zb)
            leaves = split_run(self.ev, fn_, args, signs, offs=({0} if (op.addr_only or Dp == 0) else None))
            for desc, sub, lsigns, largs, st, exc in leaves:
                ltag = tag + ((",{%s}" % desc) if len(leaves) > 1 else "")
                wv = deep_subst_view(want_view, sub, lsigns) if (sub or lsigns.get("__facts") or len(leaves) > 1) else want_view
                lidx = [x.subst(sub) for x in idx] if sub else idx
                if isinstance(exc, irval.AssertFires):
                    rep.violated("%s.assert(%s)" % (fam_prefix, ltag), fam_prefix + ".assert", str(exc))
                    continue
                if exc is not None:
                    wants = {0: (wv.addr(lidx[:Dp])) * ELEM}
                    if not (op.addr_only or Dp == 0):
                        wants[8] = wv.dims[0].z
                        wants[16] = wv.num_elements()
                        for k, d in enumerate(wv.dims):
                            for j, w in enumerate([d.f, d.z, d.s, d.s, d.f * d.s, d.z * d.s]):
                                wants[8 * (4 + 6 * k + j)] = w
                    wit = concrete_disagreement(self.ev, fn_, largs, lsigns, wants, common.seed_from_env())
                    if wit is not None:
                        rep.violated("%s.addr(%s)" % (fam_prefix, ltag), fam_prefix + ".addr",
                                     "%s (D=%d): the library's result depends on values the case does not fix (%s) and disagrees with the specification on a concrete "
                                     "member of the case class: observable at out+%d is %s, specification prescribes %s, for %s"
                                     % (op.expr, D, str(exc)[:120], wit["observable_offset"], wit["got"], wit["want"], wit["assignment"]),
                                     dict(witness=wit, operation=op.expr, D=D))
                    else:
                        rep.inconclusive("%s.addr(%s)" % (fam_prefix, ltag), fam_prefix + ".addr", str(exc))
                    continue
                # address
                want = (wv.addr(lidx[:Dp])) * ELEM
                self.rerun = (self.ev, fn_, largs, lsigns)
                self.compare("%s.addr(%s)" % (fam_prefix, ltag), fam_prefix + ".addr", st.get(0), want, lsigns, op, D, off=0)
                if op.addr_only or Dp == 0:
                    continue
                self.compare("%s.size(%s)" % (fam_prefix, ltag), fam_prefix + ".shape", st.get(8), wv.dims[0].z, lsigns, op, D, off=8)
                self.compare("%s.num_elements(%s)" % (fam_prefix, ltag), fam_prefix + ".shape", st.get(16), wv.num_elements(), lsigns, op, D, off=16)
                self.compare("%s.is_empty(%s)" % (fam_prefix, ltag), fam_prefix + ".shape", st.get(24), P.const(0), lsigns, op, D, off=24)
                for k, d in enumerate(wv.dims):
                    wants = [d.f, d.z, d.s, d.s, d.f * d.s, d.z * d.s]
                    for j, (on, w) in enumerate(zip(OBS, wants)):
                        fam = fam_prefix + (".inv" if on.startswith("raw") else ".shape")
                        self.compare("%s.%s%d(%s)" % (fam_prefix, on, k, ltag), fam, st.get(8 * (4 + 6 * k + j)), w, lsigns, op, D, off=8 * (4 + 6 * k + j))

    def compare(self, key, fam, got, want, signs, op, D, off=None):
        rep = self.rep
        if got is None:
            rep.inconclusive(key, fam, "observable was not stored by the driver function")
            return
        if got == want:
            rep.ok(key, fam, None, nontrivial=not want.is_const())
            if not want.is_const():
                rep.sample(dict(obligation=key, normal_form=repr(want)))
            return
        if has_ite(got):
            # the library selects between forms on a condition the case does not fix: decide on concrete members of the case class
            rr = getattr(self, "rerun", None)
            wit = None
            if rr is not None and off is not None:
                ev_, fn_, args_, signs_ = rr
                wit = concrete_disagreement(ev_, fn_, args_, signs_, {off: want}, common.seed_from_env(), tries=300)
            if wit is not None:
                rep.violated(key, fam, "%s: the library's result depends on a condition the case does not fix and disagrees with the specification on a concrete member of the "
                             "case class: it computes %s, the specification prescribes %s, for %s" % (key, wit["got"], wit["want"], wit["assignment"]),
                             dict(got=repr(got)[:400], want=repr(want), witness=wit, operation=op.expr if op else None, D=D))
            else:
                rep.inconclusive(key, fam, "undecided condition in %r" % got)
            return
        wit = concrete_witness(got, want, signs, common.seed_from_env())
        if wit is None:
            # sampling found no member (a sub-case with equalities between products is thin): every small member of the (sub-)case, evaluated through the IR
            rr = getattr(self, "rerun", None)
            if rr is not None and off is not None:
                ev_, fn_, args_, signs_ = rr
                w2 = concrete_disagreement(ev_, fn_, args_, signs_, {off: want}, common.seed_from_env(), tries=300)
                if w2 is not None:
                    rep.violated(key, fam, "%s: library computes %r, specification prescribes %r; on the member %s of the case class the compiled code gives %s, the "
                                 "specification %s" % (key, got, want, w2["assignment"], w2["got"], w2["want"]),
                                 dict(got=repr(got)[:400], want=repr(want)[:400], witness=w2, operation=op.expr if op else None, D=D))
                    return
            rep.inconclusive(key, fam, "normal forms differ (got %r, want %r) but no in-domain integer witness found" % (got, want))
            return
        rep.violated(key, fam, "%s: library computes %r, specification prescribes %r" % (key, got, want),
                     dict(got=repr(got), want=repr(want), witness=wit, operation=op.expr if op else None, D=D,
                          domain="descriptor satisfies offset_k=first_k*stride_k, nelems_k=size_k*stride_k; " + ("zero-based" if self.zb else "free index bases")))


class Custom:
    """free-form obligation: C++ body storing into out[k]; `wants` maps k -> expected Poly (function of case)"""

    def __init__(self, key, family, D, args, body, wants, cases=None, signs=None, view=True, declare=True):
        self.key, self.family, self.D, self.args, self.body, self.wants = key, family, D, args, body, wants
        self.cases = cases or [dict()]
        self.signs = signs or {}
        self.view = view
        self.declare = declare


class CustomRun:
    def __init__(self, rep, pid, zero_based, wd, tag):
        self.rep, self.pid, self.zb, self.wd, self.tag = rep, pid, zero_based, wd, tag
        self.items = []

    def add(self, *a, **k):
        self.items.append(Custom(*a, **k))

    def fn(self, i):
        return "g_%s_%d" % (self.tag, i)

    def compile(self, nshards=8, defines=("-DNDEBUG",), extra_prelude=""):
        idx = list(range(len(self.items)))
        shards = [idx[i::nshards] for i in range(nshards) if idx[i::nshards]]

        self.uncompiled = {}

        def one(t):
            si, sh = t
            try:
                return build(si, sh)
            except common.AnalysisBroken as e:
                if len(sh) == 1:
                    self.uncompiled[sh[0]] = str(e)
                    return ({}, {}), None
            # one operation of the shard does not compile: the others are still decided (a change that removes an operation from one kind of
            # range usually also breaks a law on the kinds that keep it, and that report must not be lost)
            funcs, structs = {}, {}
            for k, i in enumerate(sh):
                try:
                    (f, s_), _ = build("%s_%d" % (si, k), [i])
                    funcs.update(f)
                    structs.update(s_)
                except common.AnalysisBroken as e:
                    self.uncompiled[i] = str(e)
            return (funcs, structs), "cus_%s_%s_%s_*.cpp" % (self.pid, self.tag, si)

        def build(si, sh):
            out = [PRELUDE, extra_prelude]
            for i in sh:
                it = self.items[i]
                D = it.D
                desc = "".join(", long s%d, long o%d, long n%d" % (k, k, k) for k in range(D)) if it.view else ""
                oargs = "".join(", long %s" % a for a in it.args)
                out.append('extern "C" void %s(double* base%s%s, long* out) {' % (self.fn(i), desc, oargs))
                if it.view and it.declare:
                    dargs = ", ".join("s%d, o%d, n%d" % (k, k, k) for k in range(D))
                    out.append("\tmulti::subarray<double, %d> v(mk%d(%s), base);" % (D, D, dargs))
                out.append("\t" + it.body)
                out.append("}")
            src = os.path.join(self.wd, "cus_%s_%s_%s.cpp" % (self.pid, self.tag, si))
            with open(src, "w") as fh:
                fh.write("\n".join(out) + "\n")
            text = irval.emit_ir(src, src[:-4] + ".ll", defines=tuple(defines) + ("-fno-vectorize", "-fno-slp-vectorize"))
            return irval.parse_module(text), os.path.basename(src)
        from . import witness
        funcs, structs = {}, {}
        for (f, s), name in witness.parallel(one, list(enumerate(shards))):
            funcs.update(f)
            structs.update(s)
            if name:
                self.rep.units.add(name)
        self.ev = irval.Evaluator(funcs, structs)

    def check(self):
        rep = self.rep
        cmp_ = ViewRun(rep, self.pid, self.zb, self.wd)
        for i, it in enumerate(self.items):
            if i in getattr(self, "uncompiled", {}):
                msg = self.uncompiled[i]
                m = re.search(r"error: (.*)", msg)
                rep.break_("the driver operation of %s does not compile: %s" % (it.key, (m.group(1) if m else msg)[:200]))
                continue
            for ci, case in enumerate(it.cases):
                env = {k: v for k, v in case.items() if not k.startswith("__")}
                signs = base_signs(it.D)
                signs.update(it.signs)
                signs.update(case.get("__signs", {}))
                args = [A("base")]
                if it.view:
                    args += descriptor_args(it.D, self.zb, env)
                args += [A(a).subst(env) for a in it.args] + [A("out")]
                ctag = (",case%d" % ci) if len(it.cases) > 1 else ""
                if case.get("__name"):
                    ctag = "," + case["__name"]
                wants = it.wants(case, env) if callable(it.wants) else it.wants
                leaves = split_run(self.ev, self.fn(i), args, signs, offs={8 * (k_[0] if isinstance(k_, tuple) else k_) for k_ in wants})
                for desc, sub, lsigns, largs, st, exc in leaves:
                    ltag = ctag + ((",{%s}" % desc) if len(leaves) > 1 else "")
                    if isinstance(exc, irval.AssertFires):
                        rep.violated("%s%s.assert" % (it.key, ltag), it.family, str(exc), dict(body=it.body))
                        continue
                    if exc is not None:
                        cw = {}
                        for k, w in wants.items():
                            if isinstance(k, tuple):
                                k = k[0]
                            if isinstance(w, tuple):
                                w = w[0]
                            if isinstance(w, int):
                                w = P.const(w)
                            cw[8 * k] = deep_subst(w.subst(env), sub, lsigns)
                        wit = concrete_disagreement(self.ev, self.fn(i), largs, lsigns, cw, common.seed_from_env())
                        if wit is not None:
                            rep.violated("%s%s" % (it.key, ltag), it.family,
                                         "the library's result depends on values the case does not fix (%s) and disagrees with the specification on a concrete member of "
                                         "the case class: observable at out+%d is %s, specification prescribes %s, for %s"
                                         % (str(exc)[:120], wit["observable_offset"], wit["got"], wit["want"], wit["assignment"]), dict(witness=wit, body=it.body))
                        else:
                            rep.inconclusive("%s%s" % (it.key, ltag), it.family, str(exc))
                        continue
                    for k, w in sorted(wants.items(), key=lambda kv: str(kv[0])):
                        name = None
                        if isinstance(k, tuple):
                            k, name = k
                        kover = None
                        if isinstance(w, tuple):
                            w, kover = w
                        if isinstance(w, int):
                            w = P.const(w)
                        w = deep_subst(w.subst(env), sub, lsigns)
                        key = (kover + (ltag[len(ctag):] if kover else "")) if kover else "%s%s%s" % (it.key, ("." + name) if name else ("[%d]" % k if len(wants) > 1 else ""), ltag)
                        cmp_.rerun = (self.ev, self.fn(i), largs, lsigns)
                        cmp_.compare(key, it.family, st.get(8 * k), w, lsigns, type("o", (), {"expr": it.body})(), it.D, off=8 * k)


def view_wants(want_view, idx, elem_bytes=ELEM, byte_off=0, raw=True, shape=True):
    """expected contents of the out-array written by observe() for a result view (see PRELUDE)"""
    w = {(0, "addr"): want_view.addr(idx[:want_view.D]) * elem_bytes + byte_off}
    if not shape:
        return w
    w[(1, "size")] = want_view.dims[0].z
    w[(2, "num_elements")] = want_view.num_elements()
    w[(3, "is_empty")] = P.const(0)
    for k, d in enumerate(want_view.dims):
        vals = [d.f, d.z, d.s, d.s, d.f * d.s, d.z * d.s]
        for j, (on, val) in enumerate(zip(OBS, vals)):
            if on.startswith("raw") and not raw:
                continue
            w[(4 + 6 * k + j, "%s%d" % (on, k))] = val
    return w

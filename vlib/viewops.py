"""Driver generation + obligation evaluation for the view algebra (shared by C01, C19, C02, C12).

For each operation `op`, source dimensionality D and mode (zero-based / free index bases) one extern "C" function is generated
that builds an *arbitrary* view from its raw descriptor (base, stride_k, offset_k, nelems_k) through the public constructors,
applies `op`, and stores the observables of the result into an out-array:
  out[0] = &w[i0]..[i_{D'-1}] - base      out[1] = w.size()   out[2] = w.num_elements()   out[3] = w.is_empty()
  per result dimension k:  out[4+6k..] = extension_k.first(), sizes_k, strides_k, raw stride, raw offset, raw nelems
The optimised IR is evaluated symbolically (vlib.irval) under the layout invariant  offset = first*stride, nelems = size*stride
and compared with the closed forms that the specification (vlib.viewspec) prescribes.
"""
import os
import random
import re

from . import common, irval, viewspec as vs
from .poly import Poly as P, POS, NEG, NONZERO, NONNEG, NONPOS, ANY, ZERO

PRELUDE = r"""
#include <boost/multi/array.hpp>
#include <tuple>
#include <array>
namespace multi = boost::multi;
static inline auto mk0() { return multi::layout_t<0>{multi::monostate{}, multi::monostate{}, 0, 1}; }
static inline auto mk1(long s0, long o0, long n0) { return multi::layout_t<1>{mk0(), s0, o0, n0}; }
static inline auto mk2(long s0, long o0, long n0, long s1, long o1, long n1) { return multi::layout_t<2>{mk1(s1, o1, n1), s0, o0, n0}; }
static inline auto mk3(long s0, long o0, long n0, long s1, long o1, long n1, long s2, long o2, long n2) { return multi::layout_t<3>{mk2(s1, o1, n1, s2, o2, n2), s0, o0, n0}; }
static inline auto mk4(long s0, long o0, long n0, long s1, long o1, long n1, long s2, long o2, long n2, long s3, long o3, long n3) { return multi::layout_t<4>{mk3(s1, o1, n1, s2, o2, n2, s3, o3, n3), s0, o0, n0}; }
template<int K, class L> constexpr decltype(auto) subk(L const& l) { if constexpr(K == 0) { return (l); } else { return subk<K - 1>(l.sub()); } }
template<int K, int D, class W> inline void obs_dim(W const& w, long* out) {
	using std::get;
	out[4 + 6*K + 0] = get<K>(w.extensions()).first();
	out[4 + 6*K + 1] = get<K>(w.sizes());
	out[4 + 6*K + 2] = get<K>(w.strides());
	auto const& l = subk<K>(w.layout());
	out[4 + 6*K + 3] = l.stride(); out[4 + 6*K + 4] = l.offset(); out[4 + 6*K + 5] = l.nelems();
	if constexpr(K + 1 < D) { obs_dim<K + 1, D>(w, out); }
}
template<class E> inline long eaddr(E const& e, void const* base) { return reinterpret_cast<char const*>(&e) - reinterpret_cast<char const*>(base); }
template<class W, std::enable_if_t<std::is_arithmetic_v<std::decay_t<W>>, int> = 0>
inline void observe(W&& w, void const* base, long* out, long, long, long, long, long) { out[0] = eaddr(w, base); }
template<class W, std::enable_if_t<std::is_arithmetic_v<std::decay_t<W>>, int> = 0>
inline void observe_addr_only(W&& w, void const* base, long* out, long, long, long, long, long) { out[0] = eaddr(w, base); }
template<class W, std::enable_if_t<!std::is_arithmetic_v<std::decay_t<W>>, int> = 0>
inline void observe(W&& w, void const* base, long* out, long i0, long i1, long i2, long i3, long i4) {
	constexpr int D = std::decay_t<W>::rank_v;
	if constexpr(D == 1) { out[0] = eaddr(w[i0], base); }
	if constexpr(D == 2) { out[0] = eaddr(w[i0][i1], base); }
	if constexpr(D == 3) { out[0] = eaddr(w[i0][i1][i2], base); }
	if constexpr(D == 4) { out[0] = eaddr(w[i0][i1][i2][i3], base); }
	if constexpr(D == 5) { out[0] = eaddr(w[i0][i1][i2][i3][i4], base); }
	out[1] = w.size(); out[2] = w.num_elements(); out[3] = w.is_empty() ? 1 : 0;
	obs_dim<0, D>(w, out);
}
template<class W, std::enable_if_t<!std::is_arithmetic_v<std::decay_t<W>>, int> = 0>
inline void observe_addr_only(W&& w, void const* base, long* out, long i0, long i1, long i2, long i3, long i4) {
	constexpr int D = std::decay_t<W>::rank_v;
	if constexpr(D == 1) { out[0] = eaddr(w[i0], base); }
	if constexpr(D == 2) { out[0] = eaddr(w[i0][i1], base); }
	if constexpr(D == 3) { out[0] = eaddr(w[i0][i1][i2], base); }
	if constexpr(D == 4) { out[0] = eaddr(w[i0][i1][i2][i3], base); }
	if constexpr(D == 5) { out[0] = eaddr(w[i0][i1][i2][i3][i4], base); }
}
"""

ELEM = 8  # sizeof(double): addresses are compared in bytes


class Op:
    def __init__(self, name, mind, expr, args, spec, cases=None, maxd=4, signs=None, addr_only=False, c19=True, c01=True, scalar=False,
                 needs_lvalue=False):
        self.name, self.mind, self.maxd, self.expr, self.args, self.spec = name, mind, maxd, expr, args, spec
        self.cases = cases or (lambda D, zb: [dict()])
        self.signs = signs or {}
        self.addr_only, self.c19, self.c01, self.scalar = addr_only, c19, c01, scalar
        self.needs_lvalue = needs_lvalue


def A(n):
    return P.sym(n)


def _case_strided(D, zb):
    env = {"z0": A("t") * A("m")}
    if not zb:
        env["f0"] = A("t") * A("g")
    return [env]


def _case_diag(D, zb):
    pos = {"e": POS, "s0": POS, "s1": POS}   # diagonal stride s0+s1 must not vanish: strides of equal sign
    neg = {"e": POS, "s0": NEG, "s1": NEG}
    out = []
    for sg in (pos, neg):
        out += [{"z0": A("z1") + A("e"), "__zmin": A("z1"), "__signs": sg},
                {"z1": A("z0") + A("e"), "__zmin": A("z0"), "__signs": sg},
                {"z1": A("z0"), "__zmin": A("z0"), "__signs": sg}]
    return out


OPS = [
    Op("identity", 1, "v()", [], lambda v, a, c: v),
    Op("index", 1, "v[i]", ["i"], lambda v, a, c: vs.index(v, a["i"])),
    Op("call_i", 1, "v(i)", ["i"], lambda v, a, c: vs.index(v, a["i"])),
    Op("sliced", 1, "v.sliced(a, a + w)", ["a", "w"], lambda v, a, c: vs.sliced(v, a["a"], a["w"]), signs={"w": POS}),
    Op("range", 1, "v.range(multi::irange{a, a + w})", ["a", "w"], lambda v, a, c: vs.sliced(v, a["a"], a["w"]), signs={"w": POS}),
    Op("call_rng", 1, "v(multi::irange{a, a + w})", ["a", "w"], lambda v, a, c: vs.sliced(v, a["a"], a["w"]), signs={"w": POS}),
    Op("strided", 1, "v.strided(t)", ["t"], lambda v, a, c: vs.strided(v, a["t"]), cases=_case_strided, signs={"t": POS, "m": POS}),
    Op("sliced3", 1, "v.sliced(a, a + t*m, t)", ["a", "t", "m"],
       lambda v, a, c: vs.strided(vs.sliced(v, a["a"], a["t"] * a["m"]), a["t"]),
       cases=lambda D, zb: [dict()] if zb else [{"f0": A("t") * A("g")}], signs={"t": POS, "m": POS}),
    Op("dropped", 1, "v.dropped(c)", ["c"], lambda v, a, c: vs.dropped(v, a["c"]), cases=lambda D, zb: [{"z0": A("c") + A("r")}], signs={"r": POS, "c": NONNEG}),
    Op("taked", 1, "v.taked(c)", ["c"], lambda v, a, c: vs.taked(v, a["c"]), signs={"c": POS}),
    Op("rotated", 1, "v.rotated()", [], lambda v, a, c: vs.rotated(v)),
    Op("unrotated", 1, "v.unrotated()", [], lambda v, a, c: vs.unrotated(v)),
    Op("transposed", 2, "v.transposed()", [], lambda v, a, c: vs.transposed(v)),
    Op("op~", 2, "~v", [], lambda v, a, c: vs.transposed(v)),
    Op("reversed", 1, "v.reversed()", [], lambda v, a, c: vs.reversed_(v)),
    Op("diagonal", 2, "v.diagonal()", [], lambda v, a, c: vs.diagonal(v, c["__zmin"]), cases=_case_diag, c19=False),
    Op("partitioned", 1, "v.partitioned(p)", ["p"], lambda v, a, c: vs.partitioned(v, a["p"], A("m")),
       cases=lambda D, zb: [{"z0": A("p") * A("m")}], signs={"p": POS, "m": POS}, maxd=3),
    Op("chunked", 1, "v.chunked(c)", ["c"], lambda v, a, c: vs.partitioned(v, A("m"), a["c"]),
       cases=lambda D, zb: [{"z0": A("c") * A("m")}], signs={"c": POS, "m": POS}, maxd=3),
    Op("halved", 1, "v.halved()", [], lambda v, a, c: vs.partitioned(v, P.const(2), A("m")),
       cases=lambda D, zb: [{"z0": 2 * A("m")}], signs={"m": POS}, maxd=3),
    Op("flatted", 2, "v.flatted()", [], lambda v, a, c: vs.flatted(v), cases=lambda D, zb: [{"s0": A("z1") * A("s1")}, {"z0": P.const(1), "__name": "one row, any stride"}]),
    Op("broadcasted", 1, "v.broadcasted()", [], lambda v, a, c: vs.broadcasted(v), addr_only=True, maxd=3),
    Op("call_ij", 2, "v(i, j)", ["i", "j"], lambda v, a, c: vs.index(vs.index(v, a["i"]), a["j"])),
    Op("call_rng_rng", 2, "v(multi::irange{a, a + w}, multi::irange{c, c + u})", ["a", "w", "c", "u"],
       lambda v, a, c: vs.in_dim(vs.sliced(v, a["a"], a["w"]), 1, vs.sliced, a["c"], a["u"]), signs={"w": POS, "u": POS}),
    Op("call_i_rng", 2, "v(i, multi::irange{c, c + u})", ["i", "c", "u"],
       lambda v, a, c: vs.sliced(vs.index(v, a["i"]), a["c"], a["u"]), signs={"u": POS}),
    Op("call_rng_j", 2, "v(multi::irange{a, a + w}, j)", ["a", "w", "j"],
       lambda v, a, c: vs.in_dim(vs.sliced(v, a["a"], a["w"]), 1, vs.index, a["j"]), signs={"w": POS}),
    Op("call_all_j", 2, "v(multi::_, j)", ["j"], lambda v, a, c: vs.in_dim(v, 1, vs.index, a["j"])),
    Op("call_i_rng_k", 3, "v(i, multi::irange{c, c + u}, k)", ["i", "c", "u", "k"],
       lambda v, a, c: vs.in_dim(vs.sliced(vs.index(v, a["i"]), a["c"], a["u"]), 1, vs.index, a["k"]), signs={"u": POS}),
    Op("call_rng_j_rng", 3, "v(multi::irange{a, a + w}, j, multi::irange{c, c + u})", ["a", "w", "j", "c", "u"],
       lambda v, a, c: vs.in_dim(vs.in_dim(vs.sliced(v, a["a"], a["w"]), 1, vs.index, a["j"]), 1, vs.sliced, a["c"], a["u"]),
       signs={"w": POS, "u": POS}),
    Op("reindexed", 1, "v.reindexed(g)", ["g"], lambda v, a, c: vs.reindexed(v, a["g"]), c01=False),
    Op("reindexed2", 2, "v.reindexed(g, h)", ["g", "h"], lambda v, a, c: vs.in_dim(vs.reindexed(v, a["g"]), 1, vs.reindexed, a["h"]), c01=False),
    Op("blocked", 1, "v.blocked(a, a + w)", ["a", "w"], lambda v, a, c: vs.blocked(v, a["a"], a["w"]), signs={"w": POS}, c01=False, needs_lvalue=True),
    Op("stenciled", 1, "v.stenciled(multi::iextension{a, a + w})", ["a", "w"], lambda v, a, c: vs.blocked(v, a["a"], a["w"]),
       signs={"w": POS}, c01=False, needs_lvalue=True),
    Op("stenciled2", 2, "v.stenciled(multi::iextension{a, a + w}, multi::iextension{c, c + u})", ["a", "w", "c", "u"],
       lambda v, a, c: vs.in_dim(vs.blocked(v, a["a"], a["w"]), 1, vs.blocked, a["c"], a["u"]), signs={"w": POS, "u": POS}, c01=False,
       needs_lvalue=True),
    Op("stenciled3", 3, "v.stenciled(multi::iextension{a, a + w}, multi::iextension{c, c + u}, multi::iextension{e, e + t})", ["a", "w", "c", "u", "e", "t"],
       lambda v, a, c: vs.in_dim(vs.in_dim(vs.blocked(v, a["a"], a["w"]), 1, vs.blocked, a["c"], a["u"]), 2, vs.blocked, a["e"], a["t"]),
       signs={"w": POS, "u": POS, "t": POS}, c01=False, needs_lvalue=True),
    Op("stenciled4", 4, "v.stenciled(multi::iextension{a, a + w}, multi::iextension{c, c + u}, multi::iextension{e, e + t}, multi::iextension{g, g + h})",
       ["a", "w", "c", "u", "e", "t", "g", "h"],
       lambda v, a, c: vs.in_dim(vs.in_dim(vs.in_dim(vs.blocked(v, a["a"], a["w"]), 1, vs.blocked, a["c"], a["u"]), 2, vs.blocked, a["e"], a["t"]), 3, vs.blocked, a["g"], a["h"]),
       signs={"w": POS, "u": POS, "t": POS, "h": POS}, c01=False, needs_lvalue=True),
    Op("begin+m", 2, "*(v.begin() + m)", ["m"], lambda v, a, c: vs.index(v, v.dims[0].f + a["m"])),
]
OPS_BY_NAME = {o.name: o for o in OPS}

OBS = ["first", "size", "stride", "raw.stride", "raw.offset", "raw.nelems"]


def fname(op, D, zb):
    return "f_%s_D%d" % (re.sub(r"[^A-Za-z0-9]", "_", op.name), D)


def variants(ops_ds, wd, tag):
    """The same operations applied to the view as an rvalue (std::move(v)) and as a const lvalue (std::as_const(v)): same specification.  Only the
    forms that compile are returned (a front-end probe, one candidate per line; forms that do not exist for a value category are not obligations)."""
    import copy
    from . import witness
    cands = []
    for op, D in ops_ds:
        if len(re.findall(r"\bv\b", op.expr)) != 1:
            continue
        for suffix, repl in (("&&", "std::move(v)"), ("const&", "std::as_const(v)")):
            o2 = copy.copy(op)
            o2.name = op.name + suffix
            o2.expr = re.sub(r"\bv\b", repl, op.expr)
            cands.append((o2, D))
    lines = ["#include <boost/multi/array.hpp>", "#include <utility>", "namespace multi = boost::multi;"]
    index = {}
    for k, (op, D) in enumerate(cands):
        oargs = "".join(", long %s" % a for a in op.args)
        lines.append("void probe_%d(multi::subarray<double, %d>& v%s) { auto&& r = %s; (void)r; }" % (k, D, oargs, op.expr))
        index[len(lines)] = k
    tu = os.path.join(wd, "probe_%s.cpp" % tag)
    with open(tu, "w") as fh:
        fh.write("\n".join(lines) + "\n")
    rc, diags, raw = witness.compile_tu(tu)
    bad = set()
    for e, notes in witness.group_errors(diags):
        line = witness.attribute(e, notes, tu)
        if line in index:
            bad.add(index[line])
        else:
            raise common.AnalysisBroken("value-category probe: error outside the candidate lines: " + e["msg"][:200])
    return [c for k, c in enumerate(cands) if k not in bad], len(bad)


def gen_driver(wd, ops_ds, tag):
    """ops_ds: list of (op, D).  Returns path of the generated TU."""
    out = [PRELUDE]
    for op, D in ops_ds:
        desc = ", ".join("long s%d, long o%d, long n%d" % (k, k, k) for k in range(D))
        dargs = ", ".join("s%d, o%d, n%d" % (k, k, k) for k in range(D))
        oargs = "".join(", long %s" % a for a in op.args)
        out.append('extern "C" void %s(double* base, %s%s, long i0, long i1, long i2, long i3, long i4, long* out) {' % (fname(op, D, None), desc, oargs))
        out.append("\tmulti::subarray<double, %d> v(mk%d(%s), base);" % (D, D, dargs))
        out.append("\t%s(%s, base, out, i0, i1, i2, i3, i4);" % ("observe_addr_only" if op.addr_only else "observe", op.expr))
        out.append("}")
    path = os.path.join(wd, "drv_%s.cpp" % tag)
    with open(path, "w") as fh:
        fh.write("\n".join(out) + "\n")
    return path


def descriptor_args(D, zero_based, env):
    """polynomial arguments for (s_k, o_k, n_k) under the layout invariant and the case substitution env"""
    args = []
    for k in range(D):
        s = A("s%d" % k).subst(env)
        f = (P.const(0) if zero_based else A("f%d" % k)).subst(env)
        z = A("z%d" % k).subst(env)
        args += [s, f * s, z * s]
    return args


def base_signs(D):
    sg = {"base": POS, "out": POS}
    for k in range(5):
        sg["s%d" % k] = NONZERO
        sg["z%d" % k] = POS
    return sg


def has_ite(p):
    return any("ite[" in s for s in p.symbols())


def concrete_witness(got, want, signs, seed=0, tries=400):
    rnd = random.Random(seed)
    syms = sorted((got.symbols() | want.symbols()))
    base = set()
    for s in syms:
        for t in re.findall(r"[A-Za-z_]\w*", s):
            base.add(t)
    base -= {"div", "ite"}

    def ev(p, env):
        e2 = dict(env)
        for s in p.symbols():
            if s in e2:
                continue
            if s.startswith("div["):
                kind, args = irval._atoms[s]
                a, b = ev(args[0], env), ev(args[1], env)
                if b == 0:
                    raise ZeroDivisionError
                q = abs(a) // abs(b)
                e2[s] = q if (a >= 0) == (b > 0) else -q
            else:
                raise KeyError(s)
        return p.evaluate(e2)
    for _ in range(tries):
        env = {}
        for s in base:
            cls = signs.get(s, ANY)
            if cls == POS:
                env[s] = rnd.randint(1, 5)
            elif cls == NEG:
                env[s] = -rnd.randint(1, 5)
            elif cls == NONNEG:
                env[s] = rnd.randint(0, 4)
            elif cls == NONZERO:
                env[s] = rnd.choice([-3, -2, -1, 1, 2, 3])
            elif cls == ZERO:
                env[s] = 0
            else:
                env[s] = rnd.randint(-4, 6)
        try:
            g, w = ev(got, env), ev(want, env)
        except (ZeroDivisionError, KeyError):
            continue
        if g != w:
            return dict(assignment=env, got=str(g), want=str(w))
    return None


def eval_poly(p, env):
    """integer value of a polynomial under an assignment of its base symbols; div[...] atoms (truncating division) are evaluated recursively;
    raises KeyError for other uninterpreted atoms, ZeroDivisionError for a zero divisor"""
    e2 = dict(env)
    for s_ in p.symbols():
        if s_ in e2:
            continue
        if s_.startswith("div["):
            kind, args = irval._atoms[s_]
            a, b = eval_poly(args[0], env), eval_poly(args[1], env)
            if b == 0:
                raise ZeroDivisionError
            q = abs(a) // abs(b)
            e2[s_] = q if (a >= 0) == (b > 0) else -q
        else:
            raise KeyError(s_)
    return p.evaluate(e2)


def sample_env(names, signs, rnd):
    env = {}
    for s in names:
        cls = signs.get(s, ANY)
        if cls == POS:
            env[s] = rnd.randint(1, 5)
        elif cls == NEG:
            env[s] = -rnd.randint(1, 5)
        elif cls == NONNEG:
            env[s] = rnd.randint(0, 4)
        elif cls == NONPOS:
            env[s] = -rnd.randint(0, 4)
        elif cls == NONZERO:
            env[s] = rnd.choice([-3, -2, -1, 1, 2, 3])
        elif cls == ZERO:
            env[s] = 0
        else:
            env[s] = rnd.randint(-4, 6)
    return env


def concrete_disagreement(ev, fn, args, signs, wants, seed=0, tries=80):
    """When the symbolic evaluation of a case is inconclusive (the library's control flow depends on values the case does not fix), the same IR is
    evaluated on concrete members of the case class (all symbols but the base / out addresses replaced by small integers of their sign class) and
    compared with the specification at the same member.  Returns a witness dict for the first disagreement, else None.
    wants: {byte offset in the out array: Poly}."""
    rnd = random.Random(seed)
    names = set()
    for a in list(args) + list(wants.values()):
        if isinstance(a, P):
            for sy in a.symbols():
                for t in re.findall(r"[A-Za-z_]\w*", sy):
                    names.add(t)
    names -= {"base", "out", "div", "ite", "float"}
    names = sorted(names)
    decided = 0
    # few symbols: every member with small values of each symbol's sign class (special layouts such as gap-free permuted ones are rare under sampling)
    small = {POS: (1, 2, 3), NEG: (-1, -2, -3), NONNEG: (0, 1, 2), NONPOS: (0, -1, -2), NONZERO: (-2, -1, 1, 2), ZERO: (0,)}
    cand = [small.get(signs.get(nm, ANY), (-1, 0, 1, 2)) for nm in names]
    total = 1
    for c_ in cand:
        total *= len(c_)
    if total <= 6000:
        import itertools
        members = [dict(zip(names, vals)) for vals in itertools.product(*cand)]
        rnd.shuffle(members)
    else:
        members = (sample_env(names, signs, rnd) for _ in range(tries))
    for env in members:
        penv = {k: P.const(v) for k, v in env.items()}
        try:
            cargs = [a.subst(penv) if isinstance(a, P) else a for a in args]
            ev.run(fn, cargs, signs)
        except (irval.Inconclusive, irval.AssertFires, ZeroDivisionError, KeyError):
            continue
        decided += 1
        st = ev.stores
        for off, w in wants.items():
            g = st.get(off)
            if g is None:
                continue
            try:
                wv = P.const(eval_poly(w, env))
            except (KeyError, ZeroDivisionError):
                continue
            if any(sy.startswith("div[") or sy.startswith("ite[") for sy in g.symbols()):
                continue
            if g != wv:
                return dict(assignment=env, observable_offset=off, got=repr(g), want=repr(wv), members_evaluated=decided)
    return None


class ViewRun:
    """compile + evaluate a set of (op, D) in one mode; yields obligations into a Report"""

    def __init__(self, rep, pid, zero_based, wd):
        self.rep, self.pid, self.zb, self.wd = rep, pid, zero_based, wd

    def compile_shards(self, ops_ds, nshards=8):
        shards = [ops_ds[i::nshards] for i in range(nshards) if ops_ds[i::nshards]]

        def one(t):
            i, sh = t
            src = gen_driver(self.wd, sh, "%s_%s_%d" % (self.pid, "zb" if self.zb else "fb", i))
            ll = src[:-4] + ".ll"
            text = irval.emit_ir(src, ll, defines=("-DNDEBUG", "-fno-vectorize", "-fno-slp-vectorize"))
            return irval.parse_module(text), os.path.basename(src)
        from . import witness
        res = witness.parallel(one, list(enumerate(shards)))
        funcs, structs = {}, {}
        for (f, s), name in res:
            funcs.update(f)
            structs.update(s)
            self.rep.units.add(name)
        self.ev = irval.Evaluator(funcs, structs)

    def check_op(self, op, D, fam_prefix):
        rep = self.rep
        for ci, case in enumerate(op.cases(D, self.zb)):
            env = {k: v for k, v in case.items() if not k.startswith("__")}
            signs = base_signs(D)
            signs.update(op.signs)
            signs.update(case.get("__signs", {}))
            argsyms = {a: A(a) for a in op.args}
            v0 = vs.root(D, self.zb).subst(env)
            try:
                want_view = op.spec(v0, argsyms, case)
            except AssertionError as e:
                rep.break_("spec of %s D=%d not applicable: %s" % (op.name, D, e))
                continue
            Dp = want_view.D
            idx = [A("i%d" % k) for k in range(5)]
            args = [A("base")] + descriptor_args(D, self.zb, env) + [argsyms[a] for a in op.args] + idx + [A("out")]
            tag = "%s,D=%d%s" % (op.name, D, (",case%d" % ci) if len(op.cases(D, self.zb)) > 1 else "")
            try:
                self.ev.run(fname(op, D, self.zb), args, signs)
                st = self.ev.stores
            except irval.Inconclusive as e:
                wants = {0: (want_view.addr(idx[:Dp])) * ELEM}
                if not (op.addr_only or Dp == 0):
                    wants[8] = want_view.dims[0].z
                    wants[16] = want_view.num_elements()
                    for k, d in enumerate(want_view.dims):
                        for j, w in enumerate([d.f, d.z, d.s, d.s, d.f * d.s, d.z * d.s]):
                            wants[8 * (4 + 6 * k + j)] = w
                wit = concrete_disagreement(self.ev, fname(op, D, self.zb), args, signs, wants, common.seed_from_env())
                if wit is not None:
                    rep.violated("%s.addr(%s)" % (fam_prefix, tag), fam_prefix + ".addr",
                                 "%s (D=%d): the library's result depends on values the case does not fix (%s) and disagrees with the specification on a concrete "
                                 "member of the case class: observable at out+%d is %s, specification prescribes %s, for %s"
                                 % (op.expr, D, str(e)[:120], wit["observable_offset"], wit["got"], wit["want"], wit["assignment"]),
                                 dict(witness=wit, operation=op.expr, D=D))
                else:
                    rep.inconclusive("%s.addr(%s)" % (fam_prefix, tag), fam_prefix + ".addr", str(e))
                continue
            except irval.AssertFires as e:
                rep.violated("%s.assert(%s)" % (fam_prefix, tag), fam_prefix + ".assert", str(e))
                continue
            # address
            want = (want_view.addr(idx[:Dp])) * ELEM
            self.rerun = (self.ev, fname(op, D, self.zb), args, signs)
            self.compare("%s.addr(%s)" % (fam_prefix, tag), fam_prefix + ".addr", st.get(0), want, signs, op, D, off=0)
            if op.addr_only or Dp == 0:
                continue
            self.compare("%s.size(%s)" % (fam_prefix, tag), fam_prefix + ".shape", st.get(8), want_view.dims[0].z, signs, op, D, off=8)
            self.compare("%s.num_elements(%s)" % (fam_prefix, tag), fam_prefix + ".shape", st.get(16), want_view.num_elements(), signs, op, D, off=16)
            self.compare("%s.is_empty(%s)" % (fam_prefix, tag), fam_prefix + ".shape", st.get(24), P.const(0), signs, op, D, off=24)
            for k, d in enumerate(want_view.dims):
                wants = [d.f, d.z, d.s, d.s, d.f * d.s, d.z * d.s]
                for j, (on, w) in enumerate(zip(OBS, wants)):
                    fam = fam_prefix + (".inv" if on.startswith("raw") else ".shape")
                    self.compare("%s.%s%d(%s)" % (fam_prefix, on, k, tag), fam, st.get(8 * (4 + 6 * k + j)), w, signs, op, D, off=8 * (4 + 6 * k + j))

    def compare(self, key, fam, got, want, signs, op, D, off=None):
        rep = self.rep
        if got is None:
            rep.inconclusive(key, fam, "observable was not stored by the driver function")
            return
        if got == want:
            rep.ok(key, fam, None, nontrivial=not want.is_const())
            if not want.is_const():
                rep.sample(dict(obligation=key, normal_form=repr(want)))
            return
        if has_ite(got):
            # the library selects between forms on a condition the case does not fix: decide on concrete members of the case class
            rr = getattr(self, "rerun", None)
            wit = None
            if rr is not None and off is not None:
                ev_, fn_, args_, signs_ = rr
                wit = concrete_disagreement(ev_, fn_, args_, signs_, {off: want}, common.seed_from_env(), tries=300)
            if wit is not None:
                rep.violated(key, fam, "%s: the library's result depends on a condition the case does not fix and disagrees with the specification on a concrete member of the "
                             "case class: it computes %s, the specification prescribes %s, for %s" % (key, wit["got"], wit["want"], wit["assignment"]),
                             dict(got=repr(got)[:400], want=repr(want), witness=wit, operation=op.expr if op else None, D=D))
            else:
                rep.inconclusive(key, fam, "undecided condition in %r" % got)
            return
        wit = concrete_witness(got, want, signs, common.seed_from_env())
        if wit is None:
            rep.inconclusive(key, fam, "normal forms differ (got %r, want %r) but no in-domain integer witness found" % (got, want))
            return
        rep.violated(key, fam, "%s: library computes %r, specification prescribes %r" % (key, got, want),
                     dict(got=repr(got), want=repr(want), witness=wit, operation=op.expr if op else None, D=D,
                          domain="descriptor satisfies offset_k=first_k*stride_k, nelems_k=size_k*stride_k; " + ("zero-based" if self.zb else "free index bases")))


class Custom:
    """free-form obligation: C++ body storing into out[k]; `wants` maps k -> expected Poly (function of case)"""

    def __init__(self, key, family, D, args, body, wants, cases=None, signs=None, view=True, declare=True):
        self.key, self.family, self.D, self.args, self.body, self.wants = key, family, D, args, body, wants
        self.cases = cases or [dict()]
        self.signs = signs or {}
        self.view = view
        self.declare = declare


class CustomRun:
    def __init__(self, rep, pid, zero_based, wd, tag):
        self.rep, self.pid, self.zb, self.wd, self.tag = rep, pid, zero_based, wd, tag
        self.items = []

    def add(self, *a, **k):
        self.items.append(Custom(*a, **k))

    def fn(self, i):
        return "g_%s_%d" % (self.tag, i)

    def compile(self, nshards=8, defines=("-DNDEBUG",), extra_prelude=""):
        idx = list(range(len(self.items)))
        shards = [idx[i::nshards] for i in range(nshards) if idx[i::nshards]]

        self.uncompiled = {}

        def one(t):
            si, sh = t
            try:
                return build(si, sh)
            except common.AnalysisBroken as e:
                if len(sh) == 1:
                    self.uncompiled[sh[0]] = str(e)
                    return ({}, {}), None
            # one operation of the shard does not compile: the others are still decided (a change that removes an operation from one kind of
            # range usually also breaks a law on the kinds that keep it, and that report must not be lost)
            funcs, structs = {}, {}
            for k, i in enumerate(sh):
                try:
                    (f, s_), _ = build("%s_%d" % (si, k), [i])
                    funcs.update(f)
                    structs.update(s_)
                except common.AnalysisBroken as e:
                    self.uncompiled[i] = str(e)
            return (funcs, structs), "cus_%s_%s_%s_*.cpp" % (self.pid, self.tag, si)

        def build(si, sh):
            out = [PRELUDE, extra_prelude]
            for i in sh:
                it = self.items[i]
                D = it.D
                desc = "".join(", long s%d, long o%d, long n%d" % (k, k, k) for k in range(D)) if it.view else ""
                oargs = "".join(", long %s" % a for a in it.args)
                out.append('extern "C" void %s(double* base%s%s, long* out) {' % (self.fn(i), desc, oargs))
                if it.view and it.declare:
                    dargs = ", ".join("s%d, o%d, n%d" % (k, k, k) for k in range(D))
                    out.append("\tmulti::subarray<double, %d> v(mk%d(%s), base);" % (D, D, dargs))
                out.append("\t" + it.body)
                out.append("}")
            src = os.path.join(self.wd, "cus_%s_%s_%s.cpp" % (self.pid, self.tag, si))
            with open(src, "w") as fh:
                fh.write("\n".join(out) + "\n")
            text = irval.emit_ir(src, src[:-4] + ".ll", defines=tuple(defines) + ("-fno-vectorize", "-fno-slp-vectorize"))
            return irval.parse_module(text), os.path.basename(src)
        from . import witness
        funcs, structs = {}, {}
        for (f, s), name in witness.parallel(one, list(enumerate(shards))):
            funcs.update(f)
            structs.update(s)
            if name:
                self.rep.units.add(name)
        self.ev = irval.Evaluator(funcs, structs)

    def check(self):
        rep = self.rep
        cmp_ = ViewRun(rep, self.pid, self.zb, self.wd)
        for i, it in enumerate(self.items):
            if i in getattr(self, "uncompiled", {}):
                msg = self.uncompiled[i]
                m = re.search(r"error: (.*)", msg)
                rep.break_("the driver operation of %s does not compile: %s" % (it.key, (m.group(1) if m else msg)[:200]))
                continue
            for ci, case in enumerate(it.cases):
                env = {k: v for k, v in case.items() if not k.startswith("__")}
                signs = base_signs(it.D)
                signs.update(it.signs)
                signs.update(case.get("__signs", {}))
                args = [A("base")]
                if it.view:
                    args += descriptor_args(it.D, self.zb, env)
                args += [A(a).subst(env) for a in it.args] + [A("out")]
                ctag = (",case%d" % ci) if len(it.cases) > 1 else ""
                if case.get("__name"):
                    ctag = "," + case["__name"]
                wants = it.wants(case, env) if callable(it.wants) else it.wants
                try:
                    self.ev.run(self.fn(i), args, signs)
                    st = self.ev.stores
                except irval.Inconclusive as e:
                    cw = {}
                    for k, w in wants.items():
                        if isinstance(k, tuple):
                            k = k[0]
                        if isinstance(w, tuple):
                            w = w[0]
                        if isinstance(w, int):
                            w = P.const(w)
                        cw[8 * k] = w.subst(env)
                    wit = concrete_disagreement(self.ev, self.fn(i), args, signs, cw, common.seed_from_env())
                    if wit is not None:
                        rep.violated("%s%s" % (it.key, ctag), it.family,
                                     "the library's result depends on values the case does not fix (%s) and disagrees with the specification on a concrete member of "
                                     "the case class: observable at out+%d is %s, specification prescribes %s, for %s"
                                     % (str(e)[:120], wit["observable_offset"], wit["got"], wit["want"], wit["assignment"]), dict(witness=wit, body=it.body))
                    else:
                        rep.inconclusive("%s%s" % (it.key, ctag), it.family, str(e))
                    continue
                except irval.AssertFires as e:
                    rep.violated("%s%s.assert" % (it.key, ctag), it.family, str(e), dict(body=it.body))
                    continue
                for k, w in sorted(wants.items(), key=lambda kv: str(kv[0])):
                    name = None
                    if isinstance(k, tuple):
                        k, name = k
                    kover = None
                    if isinstance(w, tuple):
                        w, kover = w
                    if isinstance(w, int):
                        w = P.const(w)
                    w = w.subst(env)
                    key = kover or "%s%s%s" % (it.key, ("." + name) if name else ("[%d]" % k if len(wants) > 1 else ""), ctag)
                    cmp_.rerun = (self.ev, self.fn(i), args, signs)
                    cmp_.compare(key, it.family, st.get(8 * k), w, signs, type("o", (), {"expr": it.body})(), it.D, off=8 * k)


def view_wants(want_view, idx, elem_bytes=ELEM, byte_off=0, raw=True, shape=True):
    """expected contents of the out-array written by observe() for a result view (see PRELUDE)"""
    w = {(0, "addr"): want_view.addr(idx[:want_view.D]) * elem_bytes + byte_off}
    if not shape:
        return w
    w[(1, "size")] = want_view.dims[0].z
    w[(2, "num_elements")] = want_view.num_elements()
    w[(3, "is_empty")] = P.const(0)
    for k, d in enumerate(want_view.dims):
        vals = [d.f, d.z, d.s, d.s, d.f * d.s, d.z * d.s]
        for j, (on, val) in enumerate(zip(OBS, vals)):
            if on.startswith("raw") and not raw:
                continue
            w[(4 + 6 * k + j, "%s%d" % (on, k))] = val
    return w

"""Boolean decision trees of comparison operators, extracted with the abstract interpreter (engine A).

A function returning bool is run on symbolic operands; every path gives a partial truth assignment of *atoms* (condition terms:
calls to other comparison operators, element-comparison primitives, integer comparisons) and a constant result.  Two operators are
related (dual, or <= == (< or ==), ...) iff for every combination of pairwise compatible paths the results satisfy the relation.
"""
import re

from . import absint, typestate


def norm_atom(c):
    """(atom, polarity): strips `not`, maps operator!= atoms onto operator== atoms, drops wrapper terms"""
    pol = True
    while isinstance(c, tuple) and c and c[0] == "not":
        c, pol = c[1], not pol
    c = typestate.strip(c)
    if isinstance(c, tuple) and len(c) == 3 and c[0] == "call" and "operator!=" in c[1]:
        c, pol = ("call", c[1].replace("operator!=", "operator=="), c[2]), not pol
    if isinstance(c, tuple) and len(c) == 4 and c[0] == "cmp" and c[1] == "ne":
        c, pol = ("cmp", "eq", c[2], c[3]), not pol
    # equality is symmetric: canonical argument order
    if isinstance(c, tuple) and len(c) == 4 and c[0] == "cmp" and c[1] == "eq":
        x, y = sorted((c[2], c[3]), key=repr)
        c = ("cmp", "eq", x, y)
    if isinstance(c, tuple) and len(c) == 3 and c[0] == "call" and "operator==" in c[1] and len(c[2]) == 2:
        c = ("call", re.sub(r"^bool ", "", c[1]), tuple(sorted(c[2], key=repr)))
    if isinstance(c, tuple) and len(c) == 3 and c[0] == "call" and "adl_equal_t::operator()" in c[1]:
        # element-wise equality of two whole ranges: identified by the set of operands it ranges over
        c = ("equal-elements", re.sub(r"^.*operator\(\)", "", c[1]), tuple(sorted(set(re.findall(r"\('param', \d+\)", repr(c[2]))))))
    return c, pol


def tree(interp, fname, argvals=None):
    """list of (assignment {atom: bool}, result bool); raises absint.Limit on bounds"""
    out = []
    for kind, rv, path in interp.run(fname, argvals):
        if kind != "ret":
            continue
        asg = {}
        bad = False
        for c, v in path.pc.items():
            a, pol = norm_atom(c)
            val = v if pol else not v
            if a in asg and asg[a] != val:
                bad = True
            asg[a] = val
        if bad:
            continue
        # result: constant, or an atom (possibly negated) -> fork on it
        r = rv
        if isinstance(r, tuple) and r and r[0] == "c":
            out.append((asg, bool(r[1])))
            continue
        a, pol = norm_atom(r)
        if a in asg:
            out.append((asg, asg[a] if pol else not asg[a]))
            continue
        for tv in (True, False):
            a2 = dict(asg)
            a2[a] = tv
            out.append((a2, tv if pol else not tv))
    return out


def compatible(*asgs):
    merged = {}
    for a in asgs:
        for k, v in a.items():
            if k in merged and merged[k] != v:
                return None
            merged[k] = v
    if not int_consistent(merged):
        return None
    return merged


_CONS_CACHE = {}
_PRED = {"eq", "ne", "sgt", "sge", "slt", "sle"}


def int_consistent(asg):
    """are the integer comparison atoms of a truth assignment jointly satisfiable?  The atoms compare pure terms (equal terms denote equal values) and
    constants; every atom with its truth value is a difference constraint x - y <= k (or a disequality).  A negative cycle (Floyd-Warshall over the
    handful of terms) or a disequality between terms forced equal makes the assignment infeasible: such a combination of paths cannot occur and is not a
    counterexample.  Exact for conjunctions of difference constraints over the integers; anything else is left alone (treated as satisfiable)."""
    cons = []
    for a, v in asg.items():
        if isinstance(a, tuple) and len(a) == 4 and a[0] == "cmp" and a[1] in _PRED:
            cons.append((a[1], a[2], a[3], bool(v)))
    if len(cons) < 2:
        return True
    key = frozenset((p, repr(x), repr(y), v) for p, x, y, v in cons)
    if key in _CONS_CACHE:
        return _CONS_CACHE[key]
    idx = {"#zero": 0}

    def node(t):
        if isinstance(t, tuple) and len(t) == 2 and t[0] == "c" and isinstance(t[1], int):
            return 0, t[1]
        r = repr(t)
        if r not in idx:
            idx[r] = len(idx)
        return idx[r], 0
    le = []          # (u, v, k): value(u) - value(v) <= k
    ne = []
    for p, x, y, v in cons:
        (u, cu), (w, cw) = node(x), node(y)
        # x = val(u) + cu, y = val(w) + cw
        if not v:
            p = {"eq": "ne", "ne": "eq", "sgt": "sle", "sge": "slt", "slt": "sge", "sle": "sgt"}[p]
        d = cw - cu      # x - y <= k  <=>  val(u) - val(w) <= k + cw - cu
        if p == "eq":
            le.append((u, w, d))
            le.append((w, u, -d))
        elif p == "ne":
            ne.append((u, w, d))
        elif p == "sle":
            le.append((u, w, d))
        elif p == "slt":
            le.append((u, w, d - 1))
        elif p == "sge":
            le.append((w, u, -d))
        elif p == "sgt":
            le.append((w, u, -d - 1))
    n = len(idx)
    INF = float("inf")
    dist = [[0 if i == j else INF for j in range(n)] for i in range(n)]
    for u, w, k in le:
        if k < dist[u][w]:
            dist[u][w] = k
    for m in range(n):
        for i in range(n):
            if dist[i][m] == INF:
                continue
            for j in range(n):
                if dist[i][m] + dist[m][j] < dist[i][j]:
                    dist[i][j] = dist[i][m] + dist[m][j]
    ok = all(dist[i][i] >= 0 for i in range(n))
    if ok:
        for u, w, d in ne:        # val(u) - val(w) != d
            if u == w:
                if d == 0:
                    ok = False
            elif dist[u][w] == d and dist[w][u] == -d:
                ok = False
    _CONS_CACHE[key] = ok
    return ok


def check_relation(trees, rel):
    """trees: list of decision trees; rel(results...) -> bool must hold on every compatible combination. Returns (n_combos, counterexample|None)"""
    n = 0

    def rec(i, asgs, vals):
        nonlocal n
        if i == len(trees):
            n += 1
            if not rel(*vals):
                return (asgs, vals)
            return None
        for a, v in trees[i]:
            m = compatible(*(asgs + [a]))
            if m is None:
                continue
            r = rec(i + 1, asgs + [a], vals + [v])
            if r is not None:
                return r
        return None
    cex = rec(0, [], [])
    return n, cex


def atoms_of(t):
    s = set()
    for a, v in t:
        s |= set(a)
    return s


def show_atom(a, n=140):
    s = typestate.short_t(a, 400)
    s = re.sub(r"\('ref', \('param', (\d)\), (\d+), \d+\)", r"arg\1+\2", s)
    return s[:n]

"""Rules over the event traces of owning-array operations (engine A): shared by C04, C05, C06, C08, C09, C10."""
import re

from . import common, owning, typestate

_cache = {}


def module(wd, D, alloc="ObsAlloc<Tracked>", tag=None, prelude="", elem=None):
    key = (D, alloc, prelude)
    if key not in _cache:
        t = tag or ("D%d_%s" % (D, re.sub(r"[^A-Za-z0-9]", "", alloc)[-24:]))
        _cache[key] = owning.Module(wd, t, D, alloc, prelude=prelude)
    return _cache[key]


def thrower_key(th):
    if not th:
        return ""
    kind = th[0]
    if kind == "alloc":
        return "alloc"
    name = str(th[1])
    m = re.search(r"(\w+)$", name)
    nm = m.group(1) if m else name
    nm = re.sub(r"_t$", "", nm)
    return "%s:%s" % (kind, primitive_family(nm))


def primitive_family(nm):
    """the element primitive's family, independent of how it is spelled at the call site: the counted / ranged forms (`copy_n` / `copy`), the allocator-aware
    and plain forms (`alloc_uninitialized_fill_n` / `uninitialized_fill_n`) and the `adl_` dispatcher prefix denote the same step of an operation.  A known
    finding is keyed by (rule, operation, kind of step, family), so re-spelling the step does not turn it into a new report"""
    nm = re.sub(r"^adl_", "", nm)
    nm = re.sub(r"^alloc_", "", nm)
    nm = re.sub(r"^uninitialized_", "", nm)
    nm = re.sub(r"_n$", "", nm)
    return nm


def analyse(mod, rep, select=None):
    """run every driver operation (or the selected ones; operations reserved for one check run only when selected); returns {op: [trace results]}"""
    out = {}
    for n in mod.ops:
        if (select is not None and n not in select) or (select is None and mod.ops[n].get("only")):
            continue
        try:
            out[n] = owning.analyse_op(mod, n)
        except (owning.absint.Limit,) as e:
            rep.inconclusive("A.trace:%s" % n, "A.trace", "abstract interpretation bound hit: %s" % e)
            continue
        unk = sorted({u for r in out[n] for u in r["sim"].unknown})
        if unk:
            rep.inconclusive("A.opaque:%s" % n, "A.trace", "library function modifying a tracked array was not interpreted: %s" % unk[:3])
        rep.units.add(mod.src.split("/")[-1])
    return out


PROP_OF_RULE = {"R10": "C10", "R04": "C04"}


def typestate_obligations(rep, mod, results, want, tagD):
    """want: 'normal' (C08: ret traces) | 'exceptional' (C09: unwind / terminate traces) | 'alloc' (C10 rules on all traces) | 'alias' (C04)"""
    for n, traces in results.items():
        op = mod.ops[n]
        for i, r in enumerate(traces):
            oc = r["outcome"]
            th = thrower_key(r["thrower"])
            fam = None
            if want == "normal" and oc == "ret":
                fam = "R08.inv"
                fnd = [(rule, msg) for rule, msg in r["findings"] if rule.startswith("R08")]
            elif want == "exceptional" and oc == "unwind":
                fam = "R09.throwstate"
                fnd = [(rule, msg) for rule, msg in r["findings"] if rule.startswith("R08") or rule.startswith("R09")]
            elif want == "exceptional" and oc == "terminate":
                continue      # exception inside a noexcept region: reported once per function by the R09.noexcept scan
            elif want == "alloc":
                fam = "R10.typestate"
                fnd = [(rule, msg) for rule, msg in r["findings"] if rule.startswith("R10")]
            elif want == "alias" and oc == "ret":
                fam = "R04.alias"
                fnd = [(rule, msg) for rule, msg in r["findings"] if rule.startswith("R04")]
            if fam is None:
                continue
            base = "%s@%s%s" % (fam, n, ("[throw=%s]" % th) if th and want == "exceptional" else "")
            if not fnd:
                rep.ok("%s#%s.%d" % (base, tagD, i), fam, None)
                continue
            seen = set()
            for rule, msg in fnd:
                key = "%s:%s@%s%s" % (fam, rule, n, ("[throw=%s]" % th) if th and want == "exceptional" else "")
                if key in seen:
                    continue
                seen.add(key)
                rep.violated(key, fam, "%s (%s, %s): %s" % (op["body"], tagD, oc, scrub(msg)),
                             dict(operation=op["body"], driver="d_" + n, outcome=oc, thrower=th, rule=rule, message=scrub(msg), log=r["log"][-14:]))


def scrub(msg):
    return re.sub(r"\('heap', \d+\)", "<new block>", msg)


# ---- structural rules read off the traces ----------------------------------------------------------------------------------------

def events_of(r, kinds):
    return [e for e in r["events"] if e[0] in kinds]


def has_kind(r, kinds):
    return any(e[0] in kinds for e in r["events"])


def _ptype_of(params, k):
    ps = [p_.strip() for p_ in params.split(",")]
    if k >= len(ps):
        return None
    m = re.match(r"^(?:typename )?(\w+)", ps[k])
    return m.group(1) if m else None


def _flat_guard_ok(D, k, true_conds):
    """does the path establish that the memory order of view parameter k is its canonical element order?  Accepted idioms (each read off the atom's
    term, for that parameter): D = 1 and stride == 1 (or is_compact(), which for one dimension says the same); any D: the view's layout equals the
    canonical layout built from its own extensions (layout == layout_type(extensions()), or strides() == layout_type(extensions()).strides())."""
    me = "('param', %d)" % k
    for c in true_conds:
        if me not in c:
            continue
        others = set(re.findall(r"\('param', (\d+)\)", c)) - {str(k)}
        if D == 1 and not others and ((c.startswith("('cmp', 'eq'") and c.rstrip(")").endswith("('c', 1")) or "is_compact() const" in c):
            return True
        canon = "layout_t::layout_t(extensions_t const&)" in c and "extensions() const" in c       # the canonical layout of this view's own extensions
        if not others and canon and "operator==(layout_t const&, layout_t const&)" in c:
            return True
        if not others and canon and "tuple::operator==(tuple const&) const" in c and c.count("layout_t::strides() const") == 2:
            return True       # equal strides for equal extents: the same positions relative to the base (offsets only carry the index bases)
    return False


def viewflat_scan(mod, results, D, ops=None):
    """{operation: [problem texts]} for every operation with a view operand (see viewflat_rule)"""
    out = {}
    for n, traces in sorted(results.items()):
        if ops is not None and n not in ops:
            continue
        op = mod.ops[n]
        views = {}
        for k, role in op["roles"].items():
            if role != "view":
                continue
            t = _ptype_of(op["params"], k)
            if t in ("Sub", "CSub"):
                try:
                    views[k] = mod.offsets_for(t)["base"]
                except common.AnalysisBroken:
                    pass
        if not views:
            continue
        bad = []
        for r in traces:
            if r["outcome"] != "ret":
                continue
            true_conds = [repr(c) for c, v in r["pc"].items() if v]
            for e in r["events"]:
                if e[0] not in ("construct", "assign") or len(e) < 4:
                    continue
                hits = set()
                for a_ in e[3]:
                    sa = typestate.strip(a_)
                    hits |= {k for k, off in views.items() if sa == ("init", ("param", k), off) or sa == ("gep", ("init", ("param", k), off))}
                for k in sorted(hits):
                    if not _flat_guard_ok(D, k, true_conds):
                        conds = sorted(typestate.short_t(c, 60) + ("" if v else " [false]") for c, v in r["pc"].items())
                        bad.append("%s is handed the raw base pointer of the view (parameter %d): the elements are walked in memory order, and no condition of the "
                                   "path makes that the view's element order (path conditions: %s)" % (str(e[1])[-30:], k, "; ".join(conds)[:240]))
        out[n] = sorted(set(bad))
    return out


def viewflat_rule(rep, mod, results, tagD, D, fam, ops=None):
    """A view (subarray / const_subarray: arbitrary strides) is traversed through its iterators.  An element primitive that is handed the raw base
    pointer of a view operand walks the storage in memory order, which is the view's canonical order only for a contiguous row-major layout.
    Accepted guards: see _flat_guard_ok.  The pinned tree has no such traversal at all; a control operation of the driver keeps the rule armed."""
    for n, bad in viewflat_scan(mod, results, D, ops).items():
        op = mod.ops[n]
        key = "%s@%s" % (fam, n)
        if bad:
            rep.violated(key, fam, "%s (%s): %s" % (op["body"], tagD, bad[0]), dict(op=n, problems=bad[:3]))
        else:
            rep.ok(key + "#" + tagD, fam, None)


def viewflat_control(rep, mod, D, fam):
    """positive and negative controls of the rule: an unguarded raw traversal written in the driver must be recognised, the same traversal under an
    accepted guard must not be"""
    sel = [n for n in mod.ops if n.startswith("ctl_view_rawbase")]
    res = analyse(mod, rep, select=sel)
    got = viewflat_scan(mod, res, D)
    for n in sel:
        want_bad = n == "ctl_view_rawbase"
        if n not in got:
            rep.break_("%s control %s (D=%d) was not analysed" % (fam, n, D))
        elif bool(got[n]) != want_bad:
            rep.break_("%s control %s (D=%d): %s" % (fam, n, D, "an unguarded raw traversal of a view is not recognised" if want_bad else
                                                      "a raw traversal under an accepted guard is reported: " + got[n][0][:200]))
        else:
            rep.ok("%s.control:%s#D=%d" % (fam, n, D), fam, None, nontrivial=False)


def view_rules(rep, mod, results, tagD):
    """C05: assignment through views never (de)allocates, constructs, destroys, or writes base_/layout of any array; reaches element assignment"""
    for n, traces in results.items():
        op = mod.ops[n]
        if op["kind"] != "view":
            continue
        key = "R05.noshape@%s" % n
        bad = []
        deep = False
        for r in traces:
            for e in r["events"]:
                if e[0] in ("alloc", "dealloc", "construct", "destroy"):
                    bad.append("%s event" % e[0])
                if e[0] in ("write", "writeblk") and e[1][0] == "param":
                    bad.append("write into the representation of parameter %d at offset %s" % (e[1][1], e[2]))
            if r["outcome"] == "ret" and has_kind(r, ("assign",)):
                deep = True
        if bad:
            rep.violated(key, "R05.noshape", "%s (%s): a view operation rebinds / resizes / reallocates: %s" % (op["body"], tagD, sorted(set(bad))[:3]),
                         dict(operation=op["body"], effects=sorted(set(bad))))
        else:
            rep.ok(key + "#" + tagD, "R05.noshape", None)
        key = "R05.deep@%s" % n
        if deep:
            rep.ok(key + "#" + tagD, "R05.deep", None)
        else:
            rep.violated(key, "R05.deep", "%s (%s): no path reaches element assignment (shallow assignment)" % (op["body"], tagD), dict(operation=op["body"]))
        # same traversal kind on both sides
        key = "R05.kind@%s" % n
        kinds = set()
        for r in traces:
            for e in events_of(r, ("assign",)):
                # static parameter types of the element-assignment primitive, from its demangled signature
                sig = e[4] if len(e) > 4 else ""
                m = re.search(r"operator\(\)\((.*)\) const$", sig)
                ks = []
                for pt in (m.group(1).split(", ") if m else []):
                    if "elements_iterator_t" in pt:
                        ks.append("elements")
                    elif "array_iterator" in pt:
                        ks.append("iterator")
                    elif "move_ptr" in pt or "move_iterator" in pt:
                        ks.append("pointer")
                    elif re.search(r"\*", pt):
                        ks.append("pointer")
                    else:
                        ks.append("value")
                kinds.add(tuple(k for k in ks if k != "value"))
        # R05.nomove: the source of these operations is a plain view (a reference to someone else's elements), never an explicitly moved one
        # (element_moved / multi::move): its elements are copied, not moved from
        key = "R05.nomove@%s" % n
        movers = sorted({re.sub(r"^.*\) ", "", str(e[1]))[-40:] for r in traces for e in events_of(r, ("assign", "construct")) if re.search(r"adl_(alloc_)?(uninitialized_)?move", str(e[1]))})
        if movers:
            rep.violated(key, "R05.nomove", "%s (%s) moves from the elements of its source view (%s): assigning from a view must leave the source's elements untouched"
                         % (op["body"], tagD, movers[0]), dict(operation=op["body"], primitives=movers))
        else:
            rep.ok(key + "#" + tagD, "R05.nomove", None)
        # R05.moves: assignment from an element-moved view (element_moved() / a moved array's view) moves: the source range of the element primitive is a
        # range over move_ptr<T, ...> (dereferences to T&&), not over move_ptr<T const, ...> (T const&&: every element would be copied)
        if "element_moved()" in op["body"]:
            key = "R05.moves@%s" % n
            srcs = []
            for r in traces:
                for e in events_of(r, ("assign",)):
                    full = e[5] if len(e) > 5 else ""
                    srcs += re.findall(r"move_ptr<([^,<>]+(?:<[^<>]*>)?[^,<>]*),", full)
            if not srcs:
                rep.violated(key, "R05.moves", "%s (%s): the element assignment does not go over an element-moved range at all (the source's elements are copied)"
                             % (op["body"], tagD), dict(operation=op["body"]))
            elif any(re.search(r"\bconst\b", s_) for s_ in srcs):
                rep.violated(key, "R05.moves", "%s (%s): the element-moved source range is traversed as a range of const elements (%s): every element is copied instead of moved from"
                             % (op["body"], tagD, sorted(set(srcs))[0]), dict(operation=op["body"], element_types=sorted(set(srcs))))
            else:
                rep.ok(key + "#" + tagD, "R05.moves", dict(element_types=sorted(set(srcs))))
        # R05.count: a counted element primitive (copy_n / fill_n ...) covers exactly the destination: over flat pointers or elements() iterators the count
        # is num_elements() of the destination (or of the source, whose extents are asserted equal), over array iterators it is the leading size()
        key = "R05.count@%s" % n
        badc = []
        ncount = 0
        for r in traces:
            sim = r.get("sim")
            if sim is None:
                continue
            for e in events_of(r, ("assign",)):
                if not re.search(r"_n_t\b|_n\b", str(e[1])) or len(e) < 4:
                    continue
                if len(e[3]) < 3:
                    continue
                # (function object, first, count, destination | value): frozen from the signatures of adl_copy_n / adl_fill_n in detail/adl.hpp
                cterm = e[3][2]
                t, rp = sim.norm_count(cterm), repr(typestate.strip(cterm))
                over_iter = "array_iterator::array_iterator" in repr(typestate.strip(e[3][1]))
                ncount += 1
                if over_iter:
                    good = bool(re.search(r"layout_t::size\(\) const", rp)) and "nelems" not in rp and "num_elements" not in rp
                    expect = "the leading size() of an operand"
                else:
                    good = t[0] == "numel" and t[1] in (("L0", "p0"), ("L0", "p1"))
                    expect = "num_elements() of an operand"
                if not good:
                    badc.append("%s is called with count %s, expected %s" % (re.sub(r"^.*\) ", "", str(e[1]))[-40:], typestate.short_t(t if t[0] == "numel" else typestate.strip(cterm), 90), expect))
        if badc:
            rep.violated(key, "R05.count", "%s (%s): %s" % (op["body"], tagD, sorted(set(badc))[0]), dict(operation=op["body"], problems=sorted(set(badc))))
        elif ncount:
            rep.ok(key + "#" + tagD, "R05.count", None)
        mixed = [k for k in kinds if len(set(k)) > 1]
        if mixed:
            rep.violated(key, "R05.kind", "%s (%s): source and destination are traversed by different range kinds %s" % (op["body"], tagD, mixed), dict(kinds=sorted(kinds)))
        else:
            rep.ok(key + "#" + tagD, "R05.kind", dict(kinds=sorted(kinds)))


MOVE_OPS = {"ctor_move": 1, "ctor_move_alloc": 1, "assign_move": 1, "sctor_from_decay_alloc": 1}
COPY_OPS = ["ctor_copy", "sctor_copy", "ctor_from_view", "ctor_from_cview", "ctor_from_ref", "assign_copy", "assign_view", "assign_other_alloc_array",
            "sctor_from_view", "sctor_from_ref", "ctor_iters"]


def value_rules(rep, mod, results, tagD):
    """C04: provenance of the buffer (copy => fresh allocation, move => adopted), moves do not touch elements, source reset, self-assignment"""
    for n in MOVE_OPS:
        if n not in results:
            continue
        op = mod.ops[n]
        key = "R04.move@%s" % n
        bad = []
        for r in results[n]:
            if r["outcome"] != "ret":
                continue
            if has_kind(r, ("construct", "assign", "alloc")):
                bad.append("move path with %s" % sorted({e[0] for e in r["events"] if e[0] in ("construct", "assign", "alloc")}))
            sim = r.get("sim")
            if sim is not None:
                dst, src = sim.objs["p0"], sim.objs["p1"]
                if not any(e[0] in ("write", "writeblk") for e in r["events"]):
                    continue   # self-move early return
                if dst.base != ("init", "p1"):
                    bad.append("destination base_ = %s is not the source's buffer" % (dst.base,))
                if not (src.layout == ("empty",) or typestate.is_empty_layout(src.layout)):
                    bad.append("source layout not reset to empty: %s" % typestate.short_t(src.layout, 80))
        if bad:
            rep.violated(key, "R04.move", "%s (%s): %s" % (op["body"], tagD, "; ".join(sorted(set(bad))[:3])), dict(operation=op["body"], problems=sorted(set(bad))))
        else:
            rep.ok(key + "#" + tagD, "R04.move", None)
    for n in COPY_OPS:
        if n not in results:
            continue
        op = mod.ops[n]
        key = "R04.prov@%s" % n
        bad = []
        deep = False
        for r in results[n]:
            if r["outcome"] != "ret":
                continue
            sim = r.get("sim")
            if sim is None:
                continue
            dst = sim.objs["p0"]
            if isinstance(dst.base, tuple) and dst.base and dst.base[0] == "init" and dst.base[1] != "p0":
                bad.append("copy shares the source's buffer (%s)" % (dst.base,))
            if has_kind(r, ("construct", "assign")):
                deep = True
        if not deep:
            bad.append("no path copies elements")
        if bad:
            rep.violated(key, "R04.prov", "%s (%s): %s" % (op["body"], tagD, "; ".join(sorted(set(bad)))), dict(operation=op["body"], problems=sorted(set(bad))))
        else:
            rep.ok(key + "#" + tagD, "R04.prov", None)
    # R04.source: when the source is a contiguous object (an owning array or an array_ref) the counted element-copy / element-move primitive reads
    # from exactly the source's element pointer (its base_ field): not from origin() (which differs for non-zero index bases), not from an offset of it
    CONTIG = {"ctor_copy": "Arr", "sctor_copy": "SArr", "sctor_move": "SArr", "ctor_from_ref": "Ref", "ctor_from_mref": "Ref", "ctor_from_rref": "Ref",
              "ctor_from_ref_alloc": "Ref", "sctor_from_ref": "Ref", "sctor_from_mref": "Ref", "sctor_from_rref": "Ref", "sctor_from_ref_alloc": "Ref",
              "assign_copy": "Arr", "sassign_copy": "SArr", "assign_other_alloc_array": "Arr"}
    for n, srct in sorted(CONTIG.items()):
        if n not in results:
            continue
        key = "R04.source@%s" % n
        try:
            boff = mod.offsets_for(srct)["base"]
        except common.AnalysisBroken:
            continue
        bad, seen = [], 0
        for r in results[n]:
            if r["outcome"] != "ret":
                continue
            for e in r["events"]:
                if e[0] not in ("construct", "assign") or len(e) < 4 or not re.search(r"(copy_n|move_n)(_t)?$", str(e[1])):
                    continue
                # argument order: alloc_uninitialized_*_n(alloc, first, count, dest) / adl_copy_n(first, count, dest)
                k = 2 if "uninitialized" in str(e[1]) else 1
                if len(e[3]) <= k:
                    continue
                srcv = typestate.strip(e[3][k])
                seen += 1
                if not (isinstance(srcv, tuple) and len(srcv) == 3 and srcv[0] == "init" and srcv[1] == ("param", 1) and srcv[2] == boff):
                    bad.append("%s reads its elements from %s, expected the source's element pointer (its base_)" % (str(e[1])[-36:], typestate.short_t(srcv, 80)))
        if bad:
            rep.violated(key, "R04.source", "%s (%s): %s" % (mod.ops[n]["body"], tagD, sorted(set(bad))[0]), dict(op=n, problems=sorted(set(bad))))
        elif seen:
            rep.ok(key + "#" + tagD, "R04.source", None)
    # R04.extents: after a copy / copy-assignment the destination has the source's extents: its final layout is the source's layout, or is built from
    # the source's extensions(), or is the unchanged old layout on a path where the extents compared equal (or the self-assignment early return);
    # an empty layout is accepted when the path says the source has no elements
    for n in COPY_OPS:
        if n not in results:
            continue
        op = mod.ops[n]
        key = "R04.extents@%s" % n
        bad = []
        for r in results[n]:
            sim = r.get("sim")
            if r["outcome"] != "ret" or sim is None or "p1" not in sim.objs:
                continue
            lay = sim.objs["p0"].layout
            sl = repr(typestate.strip(lay))
            from_src = lay == ("L0", "p1") or ("extensions() const" in sl and "('param', 1)" in sl) or ("L0" in sl and "'p1'" in sl)
            eq_ext = any(v and re.search(r"operator==\(extensions_t const&(, extensions_t const&)?\)", repr(c)) for c, v in r["pc"].items())
            self_asg = any(v and "'cmp', 'eq'" in repr(c) and "('param', 0)" in repr(c) and "('param', 1)" in repr(c) and "num_elements" not in repr(c) for c, v in r["pc"].items())
            src_empty = any(v and ("num_elements" in repr(c) or "is_empty" in repr(c)) for c, v in r["pc"].items())
            if from_src or eq_ext or self_asg:
                continue
            if (lay == ("empty",) or typestate.is_empty_layout(lay)) and src_empty:
                continue
            conds = sorted(typestate.short_t(c, 60) + ("" if v else " [false]") for c, v in r["pc"].items())
            bad.append("final layout %s on the path (%s)" % (typestate.short_t(lay, 80), "; ".join(conds)[:240]))
        if bad:
            rep.violated(key, "R04.extents", "%s (%s): the destination does not end with the source's extents: %s" % (op["body"], tagD, sorted(set(bad))[0]),
                         dict(operation=op["body"], problems=sorted(set(bad))[:4]))
        else:
            rep.ok(key + "#" + tagD, "R04.extents", None)
    # self assignment: a path guarded by this == &other without any effect
    for n in ("assign_copy", "assign_move", "sassign_copy"):
        if n not in results:
            continue
        key = "R04.self@%s" % n
        ok = False
        for r in results[n]:
            if r["outcome"] != "ret":
                continue
            for c, v in r["pc"].items():
                s = repr(c)
                if v and "'cmp', 'eq'" in s and "('param', 0)" in s and "('param', 1)" in s:
                    if not any(e[0] in ("alloc", "dealloc", "construct", "destroy", "assign", "write", "writeblk") for e in r["events"]):
                        ok = True
        if ok:
            rep.ok(key + "#" + tagD, "R04.self", None)
        else:
            rep.violated(key, "R04.self", "%s (%s): no effect-free path under this == &other (self-assignment is not guarded)" % (mod.ops[n]["body"], tagD), dict(op=n))


def reextent_rules(rep, mod, results, tagD):
    """C06: no-op on equal extents; whole new storage initialised before the intersection copy; commit order; clear / reshape"""
    for n in ("reextent", "reextent_fill", "reextent_rvalue"):
        if n not in results:
            continue
        op = mod.ops[n]
        # R06.noop: the path on which the extents compare equal has no events
        key = "R06.noop@%s" % n
        noop = False
        for r in results[n]:
            if r["outcome"] != "ret":
                continue
            eq = [v for c, v in r["pc"].items() if re.search(r"operator==\(extensions_t const&(, extensions_t const&)?\)", repr(c))]
            if eq and eq[0] and not any(e[0] in ("alloc", "dealloc", "construct", "destroy", "assign", "write", "writeblk") for e in r["events"]):
                noop = True
        if noop:
            rep.ok(key + "#" + tagD, "R06.noop", None)
        else:
            rep.violated(key, "R06.noop", "%s (%s): reextent to the current extents is not an effect-free early return (storage / iterators would be invalidated)" % (op["body"], tagD), dict(op=n))
        # order on the resizing paths
        key = "R06.order@%s" % n
        bad = []
        seen_resize = False
        seen_copy = False
        # every path on which the extents differ builds new storage: elements keep their index tuples, which no in-place relabelling of the old
        # block can give (a path that only rewrites the layout keeps flat positions instead)
        for r in results[n]:
            if r["outcome"] != "ret":
                continue
            eq = [v for c, v in r["pc"].items() if re.search(r"operator==\(extensions_t const&(, extensions_t const&)?\)", repr(c))]
            if eq and eq[0]:
                continue
            if not has_kind(r, ("construct",)):
                conds = sorted(typestate.short_t(c, 70) + ("" if v else " [false]") for c, v in r["pc"].items())
                bad.append("a path on which the extents differ returns without initialising new storage (conditions: %s)" % "; ".join(conds)[:300])
        for r in results[n]:
            if r["outcome"] != "ret" or not has_kind(r, ("alloc",)):
                continue
            seen_resize = True
            seq = [e[0] for e in r["events"] if e[0] in ("alloc", "construct", "assign", "destroy", "dealloc")]
            if n != "reextent_rvalue":
                # allocate < construct ALL new elements < copy the intersection (absent only when it is empty) < destroy old < deallocate old
                # (destroy / deallocate of the old block are absent when the old array has no elements)
                want = ["alloc", "construct", "assign", "destroy", "dealloc"]
                for must in ("alloc", "construct"):
                    if must not in seq:
                        bad.append("missing %s on a resizing path (%s)" % (must, seq))
                pos = [seq.index(w) for w in want if w in seq]
                if pos != sorted(pos):
                    bad.append("order is %s, expected allocate, construct all new elements, copy the intersection, destroy old, deallocate old" % seq)
                if "assign" in seq:
                    seen_copy = True
                    ai = [i for i, e in enumerate(r["events"]) if e[0] == "assign"][0]
                    isect = [e for e in r["events"][:ai] if e[0] == "intersect"]
                    good = False
                    for e in isect:
                        s2 = repr(typestate.strip(e[2]))
                        if "('param', 0)" in s2 and "extensions() const" in s2 and "('param', 1)" in s2:
                            good = True
                    if not good:
                        bad.append("the element copy is not preceded by intersection(this->extensions(), new extensions)")
                # commit: base_ and layout of the array are written only after the copy
                idx = {k: i for i, e in enumerate(r["events"]) for k in [e[0]] if k == "assign"}
                if "assign" in idx:
                    for i, e in enumerate(r["events"]):
                        if e[0] in ("write", "writeblk") and e[1] == ("param", 0) and i < idx["assign"]:
                            bad.append("the array's base_/layout is overwritten before the intersection copy")
            else:
                want = ["destroy", "dealloc", "alloc", "construct"]
                for must in ("alloc", "construct"):
                    if must not in seq:
                        bad.append("missing %s on a resizing path (%s)" % (must, seq))
                pos = [seq.index(w) for w in want if w in seq]
                if pos != sorted(pos):
                    bad.append("order is %s, expected destroy, deallocate, allocate, construct" % seq)
        if n != "reextent_rvalue" and seen_resize and not seen_copy:
            bad.append("no resizing path copies the intersection of old and new extents")
        if not seen_resize:
            bad.append("no resizing path found")
        if bad:
            rep.violated(key, "R06.order", "%s (%s): %s" % (op["body"], tagD, "; ".join(sorted(set(bad))[:2])), dict(op=n, problems=sorted(set(bad))))
        else:
            rep.ok(key + "#" + tagD, "R06.order", None)
    for n, fam, pred, what in (
        ("clear", "R06.clear", lambda sim: sim.objs["p0"].layout == ("empty",) or typestate.is_empty_layout(sim.objs["p0"].layout), "clear() leaves the empty layout"),
    ):
        if n in results:
            key = "%s@%s" % (fam, n)
            ok = all(pred(r["sim"]) for r in results[n] if r["outcome"] == "ret" and r.get("sim") is not None)
            # ... and the layout it writes is the layout of the empty extensions (what a default-constructed array has: unit innermost stride), not
            # a zero-filled object (all strides 0: sizes and iterator differences divide by the stride)
            zeroed = []
            for r in results[n]:
                if r["outcome"] != "ret":
                    continue
                wr = [e for e in r["events"] if e[0] == "writeblk" and e[1] == ("param", 0) and len(e) > 4]
                if wr and "layout_t::layout_t(extensions_t const&)" not in repr(wr[-1][4]) and "'zero'" in repr(wr[-1][4]):
                    zeroed.append(typestate.short_t(wr[-1][4], 80))
            if ok and not zeroed:
                rep.ok(key + "#" + tagD, fam, None)
            elif not ok:
                rep.violated(key, fam, "%s (%s): violated: %s" % (mod.ops[n]["body"], tagD, what), dict(op=n))
            else:
                rep.violated(key, fam, "%s (%s): the layout left behind is a zero-filled object (%s), not the layout of the empty extensions: its strides are 0"
                             % (mod.ops[n]["body"], tagD, zeroed[0]), dict(op=n, written=zeroed[:2]))
    if "reshape" in results:
        key = "R06.reshape@reshape"
        bad = [e[0] for r in results["reshape"] for e in r["events"] if e[0] in ("alloc", "dealloc", "construct", "destroy", "assign")]
        wrote_base = [e for r in results["reshape"] for e in r["events"] if e[0] == "write" and e[2] == mod.offsets_for("Arr")["base"]]
        if bad or wrote_base:
            rep.violated(key, "R06.reshape", "a.reshape(x) (%s) touches storage or elements: %s" % (tagD, sorted(set(bad))), dict(events=sorted(set(bad))))
        else:
            rep.ok(key + "#" + tagD, "R06.reshape", None)


def assign_rules(rep, mod, results, tagD, D):
    """C06 (assign clause): a.assign(first, last) may keep the storage and copy in place only on paths on which the requested contents have the
    array's extents: the number of items equals size(), and for D > 1 the extents of the items equal the extents of the array's own items (or the range
    is empty).  On every other path new storage with the requested extents is built."""
    for n in ("assign_iters", "assign_ilist"):
        if n in results:
            _assign_rule(rep, mod, results, tagD, D, n)


def _assign_rule(rep, mod, results, tagD, D, n):
    key = "R06.assign@%s" % n
    bad = []
    inplace = 0
    rebuilt = 0
    for r in results[n]:
        if r["outcome"] != "ret":
            continue
        if has_kind(r, ("alloc", "construct")):
            rebuilt += 1
            continue
        if not has_kind(r, ("assign",)):
            continue          # nothing copied (the empty list clears the array; an empty range over an empty array)
        inplace += 1
        true_conds = [repr(c) for c, v in r["pc"].items() if v]
        # (for D = 1 the number of elements is the size: either spelling is the same guard)
        count_ok = any(("adl_distance" in c or "initializer_list::size() const" in c) and ("layout_t::size() const" in c or (D == 1 and "num_elements() const" in c)) and "'cmp', 'eq'" in c for c in true_conds)
        empty_range = any((re.search(r"array_iterator::operator==\(array_iterator const&\) const", c) and "('param', 1)" in c and "('param', 2)" in c)
                          or ("initializer_list::begin() const" in c and "initializer_list::end() const" in c and "'cmp', 'eq'" in c) for c in true_conds)
        ext_eq = re.compile(r"extensions_t::operator==|operator==\(extensions_t const&")      # member (D - 1 = 1) and friend (D - 1 > 1) forms
        items_ok = any(ext_eq.search(c) and ("operator*() const" in c or "initializer_list::begin() const" in c) and "('param', 1)" in c and "('param', 0)" in c for c in true_conds)
        # the same guard written as one comparison of whole extents: this->extensions() == distance(first, last) * extensions(*first)
        whole = any(ext_eq.search(c) and "adl_distance" in c and ("operator*() const" in c or "initializer_list::begin() const" in c or D == 1) and "('param', 0)" in c for c in true_conds)
        if whole:
            continue
        if not count_ok:
            bad.append("an in-place path is not guarded by distance(first, last) == size()")
        if D > 1 and not (empty_range or items_ok):
            conds = sorted(typestate.short_t(c, 70) + ("" if v else " [false]") for c, v in r["pc"].items())
            bad.append("an in-place path compares only the number of items, not the extents of the items with the extents of the array's rows "
                       "(conditions: %s): items of another shape are copied over rows of the old shape" % "; ".join(conds)[:260])
    # the items' extents are compared by dereferencing both `first` and `begin()`: only on paths that have established a non-empty range (for an
    # empty range over an empty array `*begin()` designates nothing: a null or dangling element pointer)
    if D > 1:
        ext_eq2 = re.compile(r"extensions_t::operator==|operator==\(extensions_t const&")
        rng_eq = re.compile(r"array_iterator::operator==\(array_iterator const&\) const")
        for r in results[n]:
            derefs = [c for c, v in r["pc"].items() if ext_eq2.search(repr(c)) and "operator*() const" in repr(c) and "('param', 1)" in repr(c) and "('param', 0)" in repr(c)]
            if not derefs:
                continue
            nonempty = any(rng_eq.search(repr(c)) and "('param', 1)" in repr(c) and "('param', 2)" in repr(c) and not v for c, v in r["pc"].items())
            counted_nonzero = any(("adl_distance" in repr(c) or "initializer_list::size() const" in repr(c)) and "('c', 0)" in repr(c) and "'cmp', 'eq'" in repr(c) and not v for c, v in r["pc"].items())
            if not (nonempty or counted_nonzero) and "iters" in n:
                bad.append("the extents of *first and *begin() are compared on a path that has not established first != last: for an empty range over an empty "
                           "array both are dereferenced although they designate nothing")
                break
    if not inplace:
        bad.append("no in-place path found")
    if not rebuilt:
        bad.append("no path builds new storage")
    if bad:
        rep.violated(key, "R06.assign", "%s (%s): %s" % (mod.ops[n]["body"], tagD, "; ".join(sorted(set(bad))[:2])), dict(op=n, problems=sorted(set(bad))))
    else:
        rep.ok(key + "#" + tagD, "R06.assign", None)


def alloc_rules(rep, mod, results, tagD, pocca, pocma, pocs):
    """C10: who allocates, select_on_container_copy_construction, propagation traits, adoption of foreign buffers"""
    for n, traces in results.items():
        op = mod.ops[n]
        # R10.who : every allocate / deallocate goes through the alloc_ member of a tracked owning array
        key = "R10.who@%s" % n
        bad = []
        for r in traces:
            sim = r.get("sim")
            for e in r["events"]:
                if e[0] in ("alloc", "dealloc"):
                    a = e[2][0] if e[2] else None
                    ok = False
                    if sim is not None and isinstance(a, tuple) and a and a[0] == "p":
                        o = sim.obj_of_region(a[1], create=False)
                        ok = o is not None and o.alloc_off is not None and a[2] == o.alloc_off
                    if not ok:
                        bad.append("%s through %s" % (e[0], typestate.short_t(a, 60)))
                if e[0] in ("ext",) and re.search(r"^operator (new|delete)", str(e[1])):
                    bad.append("direct %s" % e[1])
        if bad:
            rep.violated(key, "R10.who", "%s (%s): storage is obtained / released outside the array's own allocator: %s" % (op["body"], tagD, sorted(set(bad))[:2]), dict(problems=sorted(set(bad))))
        else:
            rep.ok(key + "#" + tagD, "R10.who", None)
    # allocator value of p0 at normal exit
    def final_alloc(n, who="p0"):
        vals = set()
        for r in results.get(n, []):
            if r["outcome"] == "ret" and r.get("sim") is not None and any(e[0] in ("write", "writeblk", "ext", "opaque", "alloc") for e in r["events"]):
                if who in r["sim"].objs:
                    vals.add(r["sim"].objs[who].alloc)
        return vals

    def expect(n, fam, pred, msg, who="p0"):
        if n not in results:
            return
        key = "%s@%s" % (fam, n) + ("" if who == "p0" else "." + who)
        vals = final_alloc(n, who)
        bad = [v for v in vals if not pred(v)]
        if not vals:
            rep.inconclusive(key + "#" + tagD, fam, "no effectful normal path")
        elif bad:
            rep.violated(key + ("[%s]" % tagD.split("/")[-1] if "/" in tagD else ""), fam, "%s (%s): %s; allocator of the destination is %s" % (mod.ops[n]["body"], tagD, msg, typestate.short_t(bad[0], 120)),
                         dict(op=n, allocator=[typestate.short_t(v, 200) for v in vals]))
        else:
            rep.ok(key + "#" + tagD, fam, dict(allocator=[typestate.short_t(v, 120) for v in vals]))
    for n in ("ctor_copy", "sctor_copy"):
        expect(n, "R10.socc", lambda v: "select_on_container_copy_construction" in repr(v) and "'p1'" in repr(v),
               "copy construction must take select_on_container_copy_construction(other.get_allocator())")
    for n in ("ctor_alloc", "ctor_ext_alloc", "ctor_ext_elem_alloc", "ctor_from_view_alloc", "ctor_from_ref_alloc", "ctor_iters_alloc", "ctor_move_alloc",
              "sctor_alloc", "sctor_ext_alloc", "sctor_ext_elem_alloc", "sctor_from_view_alloc", "sctor_from_ref_alloc", "sctor_iters_alloc"):
        # a copy of the allocator argument itself: not of another array's allocator, and not of a value computed from the argument
        # (select_on_container_copy_construction(alloc) is a different allocator for e.g. polymorphic_allocator)
        expect(n, "R10.extalloc", lambda v: (isinstance(v, tuple) and len(v) == 3 and v[0] == "alloc-from" and isinstance(v[1], tuple) and v[1][0] == "ref"
                                             and isinstance(v[1][1], tuple) and v[1][1][0] == "param" and "'A0'" not in repr(v)),
               "allocator-extended constructor must use the supplied allocator")
    from_other = lambda v: "'A0', 'p1'" in repr(v)      # noqa: E731
    own = lambda v: v == ("A0", "p0")                   # noqa: E731
    expect("assign_copy", "R10.pocca", from_other if pocca else own,
           "propagate_on_container_copy_assignment is %s: the allocator must %s" % (pocca, "be replaced by the source's" if pocca else "be kept"))
    expect("assign_move", "R10.pocma", from_other if pocma else own,
           "propagate_on_container_move_assignment is %s: the allocator must %s" % (pocma, "be replaced by the source's" if pocma else "be kept"))
    for n in ("swap_member", "swap_free"):
        expect(n, "R10.pocs", from_other if pocs else own,
               "propagate_on_container_swap is %s: the allocators must %s" % (pocs, "be exchanged" if pocs else "be kept"))
        # the other operand of the exchange (eighth seed round: an exchange written with an aliasing temporary leaves both arrays with one allocator)
        expect(n, "R10.pocs", (lambda v: "'A0', 'p0'" in repr(v)) if pocs else (lambda v: v == ("A0", "p1")),
               "propagate_on_container_swap is %s: the allocator of the second operand must %s" % (pocs, "become the first operand's" if pocs else "be kept"), who="p1")
    # R10.adopt : at normal exit the storage owned by an array must have been allocated through an allocator value equal to its alloc_
    for n, traces in results.items():
        op = mod.ops[n]
        if op["kind"] == "view" or n in ("swap_member", "swap_free", "sswap_free"):
            continue      # swap of arrays with unequal non-propagating allocators is outside the Allocator-aware container contract (UB)
        key = "R10.adopt@%s" % n
        bad = []
        for r in traces:
            sim = r.get("sim")
            if r["outcome"] != "ret" or sim is None:
                continue
            for o in sim.objs.values():
                if o.role not in ("live", "ctor") or o.alloc_off is None:
                    continue
                if o.layout in (("empty",), ("uninit",)) or typestate.is_empty_layout(o.layout):
                    continue
                st = sim.storages.get(o.base)
                if st is None or st["size"] in sim.zero:
                    continue
                if not same_alloc(st["alloc"], o.alloc):
                    if alloc_equality_tested(r["pc"]):
                        continue
                    bad.append("%s owns a block obtained through %s but will release it through %s" % (o.name, typestate.short_t(st["alloc"], 70), typestate.short_t(o.alloc, 70)))
        if bad:
            rep.violated(key, "R10.adopt", "%s (%s): %s (no allocator-equality test on that path)" % (op["body"], tagD, sorted(set(bad))[0]), dict(op=n, problems=sorted(set(bad))))
        else:
            rep.ok(key + "#" + tagD, "R10.adopt", None)


def same_alloc(a, b):
    return canon_alloc(a) == canon_alloc(b)


def canon_alloc(a):
    """allocator values: copies of an allocator are equal to it (Allocator requirements)"""
    if isinstance(a, tuple) and a:
        if a[0] == "alloc-from" and len(a) > 1:
            return canon_alloc(a[1])
        if a[0] == "alloc-of" and len(a) > 2:
            return canon_alloc(a[2])
        if a[0] == "assigned" and len(a) > 1:
            return canon_alloc(a[1])
        if a[0] in ("ctor", "call") and "ObsAlloc::ObsAlloc(ObsAlloc const&)" in a[1] and a[2]:
            return canon_alloc(a[2][-1])
        if a[0] in ("ctor", "call") and re.search(r"ObsAlloc::operator=\(ObsAlloc const&\)", a[1]) and a[2]:
            return canon_alloc(a[2][-1])
    return a


def alloc_equality_tested(pc):
    return any("operator==(ObsAlloc const&, ObsAlloc const&)" in repr(c) or "operator!=(ObsAlloc const&, ObsAlloc const&)" in repr(c) or "is_equal" in repr(c)
               for c in pc)


def noexcept_sites(mod, full=False):
    """(function, may-throw callee) pairs where an exception raised by the callee is routed to std::terminate because the enclosing
    function (or region) is noexcept: invoke whose unwind destination is a terminate landing pad"""
    from . import absint
    thr = mod.interp.may_throw
    m = mod.mod
    out = {}
    for name, f in m.funcs.items():
        if "boost::multi" not in f.demangled:
            continue
        for lab, b in f.blocks.items():
            for ins in b:
                if ins.op != "invoke" or not ins.callee or ins.callee.startswith("llvm."):
                    continue
                c = ins.callee
                may = thr.get(c, False) if c in m.funcs else (not m.is_nounwind(c) and not c.startswith("__cxa_"))
                if not may:
                    continue
                ub = f.blocks.get(ins.unwind, [])
                if any(i.op == "call" and i.callee == "__clang_call_terminate" for i in ub):
                    if full:      # unabbreviated names (template arguments kept): tells instantiations of one member template apart
                        out.setdefault(f.demangled, set()).add(m.demangled.get(c, c))
                    else:
                        out.setdefault(absint.short(f.demangled), set()).add(absint.short(m.demangled.get(c, c)))
    return out


def rollback_rule(rep, mod, tagD):
    """R09.rollback: every element-construction helper that constructs in a loop catches everything, destroys the constructed prefix
    and rethrows: each call that can reach element construction is an invoke whose landing pad is a catch-all reaching a destroy
    call and then __cxa_rethrow"""
    from . import absint
    m = mod.mod
    reach_construct = {}
    # functions that (transitively) call allocator construct
    direct = set()
    for name, f in m.funcs.items():
        for b in f.blocks.values():
            for ins in b:
                if ins.op in ("call", "invoke") and ins.callee:
                    d = m.demangled.get(ins.callee, ins.callee)
                    if re.search(r"allocator_traits<.*>::construct<|::construct<Tracked", d) or re.search(r"^Tracked::Tracked\(", d):
                        direct.add(ins.callee)
    helpers = []
    for name, f in m.funcs.items():
        d = absint.short(f.demangled)
        if "operator()" in d or "{lambda" in d or "::_(" in d:
            continue
        if re.search(r"(?:^| )(xtd::)?(alloc_)?uninitialized_\w+\(", d) and not re.search(r"(?:^| )std::uninitialized", d):
            helpers.append(name)
    found = 0
    for name in helpers:
        f = m.funcs[name]
        # does this helper contain a loop or a for_each that reaches construction?
        sites = []
        for lab, b in f.blocks.items():
            for ins in b:
                if ins.op in ("call", "invoke") and ins.callee and (ins.callee in direct or reaches(m, ins.callee, direct)):
                    sites.append((lab, ins))
        if not sites:
            continue
        found += 1
        key = "R09.rollback@%s" % re.search(r"((?:xtd::)?(?:alloc_)?uninitialized_\w+)\(", absint.short(f.demangled)).group(1)
        bad = []
        for lab, ins in sites:
            if ins.op != "invoke":
                bad.append("element construction reached by a plain call (no handler)")
                continue
            lp = f.blocks.get(ins.unwind, [])
            if not any(i.op == "landingpad" and i.catchall for i in lp):
                bad.append("landing pad is not a catch-all")
                continue
            # from the landing pad: must reach a destroy call and then a rethrow
            seen, todo = set(), [ins.unwind]
            has_destroy = has_rethrow = False
            while todo:
                l = todo.pop()
                if l in seen or l not in f.blocks:
                    continue
                seen.add(l)
                for i in f.blocks[l]:
                    if i.op in ("call", "invoke") and i.callee:
                        dn = m.demangled.get(i.callee, i.callee)
                        if re.search(r"::destroy<|::destroy\(|for_each", dn):
                            has_destroy = True
                        if i.callee == "__cxa_rethrow":
                            has_rethrow = True
                    if i.op == "br":
                        todo += i.targets
                    if i.op == "invoke":
                        todo += [i.normal, i.unwind]
            if not has_destroy:
                bad.append("handler does not destroy the constructed prefix")
            if not has_rethrow:
                bad.append("handler does not rethrow")
        if bad:
            rep.violated(key, "R09.rollback", "%s (%s): %s" % (absint.short(f.demangled)[:90], tagD, sorted(set(bad))), dict(function=f.demangled, problems=sorted(set(bad))))
        else:
            rep.ok(key + "#" + tagD, "R09.rollback", None)
    return found


def rollback_exact(rep, mod, tagD, prop="R09", n=3):
    """Exact range of the roll-back in the element-construction helpers of detail/adl.hpp (pointer instantiations): the helper is interpreted with every
    callee inlined down to the allocator's construct / destroy (external events), with count n (loops unrolled, n + 1 feasible paths).
      normal path:       exactly the n consecutive slots dest, dest + 1, ... are constructed, once each, nothing is destroyed
      throw at slot k:   exactly the k slots constructed so far are destroyed, once each, and the exception is rethrown"""
    from . import absint
    m = mod.mod
    full = absint.Interp(m, inline_extra=re.compile(r"."), max_paths=4000, max_depth=120)
    full.max_visits = n + 3
    found = 0
    step = None
    for name, f in sorted(m.funcs.items(), key=lambda kv: kv[1].demangled):
        d = absint.short(f.demangled)
        if "operator()" in d or "{lambda" in d or "::_(" in d:
            continue
        mm = re.search(r"(?:^| )((?:xtd::)?(?:alloc_)?uninitialized_\w+)\(ObsAlloc&, (.*)\)", d)
        if not mm or re.search(r"(?:^| )std::uninitialized", d):
            continue
        ptypes = [pt for pn, pt, sret in f.params]
        sig = "%s(%s)" % (mm.group(1), mm.group(2))
        key = "%s.exact@%s" % (prop, sig)
        init_mem = {}
        if mm.group(2) == "array_iterator, array_iterator, array_iterator" and len(ptypes) == 6 and ptypes[2] == "i64" and ptypes[4] == "i64" and step is not None:
            # (first, last, d_first) as 1-D array iterators {pointer, stride}: first and last in registers, d_first by value in memory;
            # unit strides, last = first + n
            argv = [("p", ("param", 0), 0), ("p", ("param", 1), 0), ("c", 1), ("p", ("param", 1), n * step), ("c", 1), ("p", ("param", 5), 0)]
            init_mem = {(("param", 5), 0): ("p", ("param", 6), 0), (("param", 5), 8): ("c", 1)}
        elif re.match(r"^Tracked const\*, Tracked const\*, ", mm.group(2)):
            continue                          # (pointer, pointer, ...) ranges: the same template body as the (iterator, iterator, ...) instantiation above
        elif all(pt == "i64" or pt.endswith("Tracked*") or pt.endswith("ObsAlloc*") for pt in ptypes) and "i64" in ptypes:
            argv = [("c", n) if pt == "i64" else ("p", ("param", k), 0) for k, pt in enumerate(ptypes)]
        else:
            continue                          # other iterator instantiations of the same templates are not interpreted
        try:
            res = full.run(name, argv, init_mem)
        except absint.Limit as e:
            rep.inconclusive(key, prop + ".exact", "abstract interpretation bound hit: %s" % str(e)[:160])
            continue
        found += 1
        bad = []
        nthrow = 0
        for oc, rv, path in res:
            cons, dest, threw, rethrown, failed = [], [], None, False, set()
            prev = None
            for e in path.events:
                if e[0] == "ext" and re.search(r"::construct[<(]", str(e[1])):
                    cons.append(e[2][1] if len(e[2]) > 1 else None)
                elif e[0] == "ext" and re.search(r"::destroy[<(]", str(e[1])):
                    dest.append(e[2][1] if len(e[2]) > 1 else None)
                elif e[0] == "throws":
                    # the call recorded immediately before is the one that threw: a construct (its slot holds no object), or something else
                    # (a temporary's constructor evaluated for the construct call): then every construct recorded so far succeeded
                    threw = len(cons)
                    if prev is not None and prev[0] == "ext" and re.search(r"::construct[<(]", str(prev[1])):
                        failed.add(len(cons) - 1)
                        threw = len(cons) - 1
                elif e[0] == "throw":
                    rethrown = True
                prev = e
            okc = [c for i, c in enumerate(cons) if i not in failed]
            if oc == "ret":
                if dest:
                    bad.append("a normal path destroys elements")
                offs = sorted(c[2] for c in okc if isinstance(c, tuple) and c[0] == "p")
                regions = {c[1] for c in okc if isinstance(c, tuple) and c[0] == "p"}
                if len(okc) != n or len(regions) != 1 or len(set(offs)) != n or offs[0] != 0 or any(b - a != offs[1] - offs[0] for a, b in zip(offs, offs[1:])):
                    bad.append("the normal path constructs %s instead of %d consecutive slots" % ([typestate.short_t(c, 30) for c in okc], n))
                elif step is None and n > 1:
                    step = offs[1] - offs[0]
            elif oc == "unwind":
                nthrow += 1
                if threw is None:
                    continue                  # exception from something other than element construction: nothing constructed by this helper is known
                if sorted(map(repr, dest)) != sorted(map(repr, okc)):
                    bad.append("element construction throws at slot %d: constructed %s, destroyed %s" % (threw, [c[2] if isinstance(c, tuple) else c for c in okc],
                                                                                                        [c[2] if isinstance(c, tuple) else c for c in dest]))
                if not rethrown:
                    bad.append("the exception is not rethrown after the roll-back")
            else:
                bad.append("a path ends in std::terminate")
        if nthrow < n:
            bad.append("only %d of the %d throwing paths were found" % (nthrow, n))
        if bad:
            rep.violated(key, prop + ".exact", "%s with %d elements (%s): %s" % (sig, n, tagD, sorted(set(bad))[0]), dict(function=f.demangled[:200], problems=sorted(set(bad))[:4]))
        else:
            rep.ok(key + "#" + tagD, prop + ".exact", None)
    return found


_reach_cache = {}


def reaches(m, callee, targets, depth=0):
    k = (id(m), callee)
    if k in _reach_cache:
        return _reach_cache[k]
    _reach_cache[k] = False
    if callee in targets:
        _reach_cache[k] = True
        return True
    f = m.funcs.get(callee)
    r = False
    if f is not None and depth < 12:
        for b in f.blocks.values():
            for ins in b:
                if ins.op in ("call", "invoke") and ins.callee and not ins.callee.startswith("llvm."):
                    if ins.callee in targets or reaches(m, ins.callee, targets, depth + 1):
                        r = True
                        break
            if r:
                break
    _reach_cache[k] = r
    return r


def destroy_direction(rep, mod, tagD, n=3):
    """Summary of the destroy primitive `alloc_destroy_n(alloc, p, n)` read off its own body (every callee inlined down to the allocator's destroy, loop
    unrolled for n elements): it must destroy n distinct consecutive slots, once each, and nothing else; the slots are either p, p+1, .. ("forward": p is the
    beginning of the range) or p-1, p-2, .. ("backward": p is its end).  Returns "forward" / "backward" / None (violation or undecided, reported)."""
    from . import absint
    m = mod.mod
    full = absint.Interp(m, inline_extra=re.compile(r"."), max_paths=4000, max_depth=120)
    full.max_visits = n + 3
    for name, f in sorted(m.funcs.items(), key=lambda kv: kv[1].demangled):
        d = absint.short(f.demangled)
        if not re.search(r"(?:^| )(?:xtd::)?alloc_destroy_n\(ObsAlloc&, Tracked\*, long\)$", d):
            continue
        key = "R08.prim@alloc_destroy_n(ObsAlloc&, Tracked*, long)"
        ptypes = [pt for pn, pt, sret in f.params]
        argv = [("c", n) if pt == "i64" else ("p", ("param", k), 0) for k, pt in enumerate(ptypes)]
        try:
            res = full.run(name, argv, {})
        except absint.Limit as e:
            rep.inconclusive(key, "R08.prim", "abstract interpretation bound hit: %s" % str(e)[:160])
            return None
        dirs, bad = set(), []
        for oc, rv, path in res:
            dest = [e[2][1] if len(e[2]) > 1 else None for e in path.events if e[0] == "ext" and re.search(r"::destroy[<(]", str(e[1]))]
            if oc != "ret":
                continue
            if any(not (isinstance(c, tuple) and c[0] == "p" and c[1] == ("param", 1)) for c in dest):
                bad.append("destroys something that is not a slot relative to its pointer argument: %s" % [typestate.short_t(c, 40) for c in dest][:3])
                continue
            offs = sorted(c[2] for c in dest)
            if len(offs) != n or len(set(offs)) != n or any(b - a != offs[1] - offs[0] for a, b in zip(offs, offs[1:])):
                bad.append("with count %d it destroys the slots at byte offsets %s (not %d distinct consecutive slots)" % (n, offs, n))
                continue
            step = offs[1] - offs[0]
            if offs[0] == 0:
                dirs.add("forward")
            elif offs[-1] == -step:
                dirs.add("backward")
            else:
                bad.append("with count %d it destroys the slots at byte offsets %s: neither [p, p+n) nor [p-n, p)" % (n, offs))
        if not bad and len(dirs) != 1:
            bad.append("no normal path with %d destroy events found" % n if not dirs else "paths disagree on the range: %s" % sorted(dirs))
        if bad:
            rep.violated(key, "R08.prim", "alloc_destroy_n (%s): %s" % (tagD, bad[0]), dict(function=f.demangled[:200], problems=bad[:4]))
            return None
        rep.ok(key + "#" + tagD, "R08.prim", dict(range=sorted(dirs)[0]))
        return sorted(dirs)[0]
    rep.break_("R08.prim: no instantiation alloc_destroy_n(ObsAlloc&, Tracked*, long) found")
    return None


def destroy_sites(rep, ops, results, direction, tagD):
    """Every call of the destroy primitive in the container layer passes the end of the range its summary (destroy_direction) expects: the storage's base
    pointer itself for a forward primitive, a pointer displaced from the base for a backward one.  (The displacement itself is not decided: the term domain
    drops non-constant indices.)  Returns the number of classified call sites."""
    nsites = 0
    for n, traces in sorted(results.items()):
        kinds = {}
        for r in traces:
            for e in r["events"]:
                if e[0] != "destroy" or len(e[3]) < 3:
                    continue
                t = e[3][1] if not (isinstance(e[3][1], tuple) and e[3][1][:1] == ("ref",) and len(e[3]) > 2) else e[3][2]
                while isinstance(t, tuple) and len(t) == 2 and t[0] == "@":
                    t = t[1]
                if not isinstance(t, tuple) or not t:
                    continue
                if t[0] == "init" or (t[0] == "p" and len(t) > 2 and t[2] == 0 and isinstance(t[1], tuple) and t[1][:1] == ("heap",)):
                    kinds.setdefault("base", typestate.short_t(t, 80))
                elif t[0] == "gep" or (t[0] == "p" and len(t) > 2 and t[2] != 0):
                    if typestate.find_storage(t, {}) is not None or "init" in repr(t):
                        kinds.setdefault("displaced", typestate.short_t(t, 80))
        for kind, term in sorted(kinds.items()):
            nsites += 1
            key = "R08.prim.site@%s" % n
            want = "base" if direction == "forward" else "displaced"
            if kind != want:
                rep.violated(key, "R08.prim.site", "%s (%s): the destroy primitive destroys %s its pointer argument, but this call passes %s (%s)"
                             % (ops[n]["body"], tagD, "the elements from" if direction == "forward" else "the elements before",
                                "a pointer displaced from the storage's beginning" if kind == "displaced" else "the beginning of the storage", term),
                             dict(op=n, primitive_range=direction, argument=term))
            else:
                rep.ok(key + "#" + tagD + "#" + kind, "R08.prim.site", None)
    return nsites

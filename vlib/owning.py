"""Driver generation and trace analysis for owning arrays (shared by C04, C06, C08, C09, C10)."""
import os
import re

from . import common, ir0, absint, layouts, typestate

TYPES = r"""
#include <boost/multi/array.hpp>
#include <initializer_list>
#include <memory_resource>
#include <new>
namespace multi = boost::multi;
#ifdef TRACKED_TRIVIAL
using Tracked = int;
using Other = long;
#else
// a second element type: conversions / assignments from it to Tracked may always throw (cross-element-type overloads of assignment and construction)
struct Other {
	int v;
	Other() noexcept(false);
	Other(Other const&) noexcept(false);
	Other& operator=(Other const&) noexcept(false);
	~Other();
};
struct Tracked {
	int v;
	Tracked(Other const&) noexcept(false);
	Tracked& operator=(Other const&) noexcept(false);
#ifdef TRACKED_TDC
	Tracked() = default;                               // trivially default constructible (and destructible) but not trivial: the copy operations are user provided
	Tracked(Tracked const&) noexcept(false);
	Tracked& operator=(Tracked const&) noexcept(false);
	bool operator==(Tracked const&) const;
	bool operator<(Tracked const&) const;
};
static_assert(std::is_trivially_default_constructible_v<Tracked> && !std::is_trivial_v<Tracked>);
#define TRACKED_DEFINED 1
#endif
#ifdef TRACKED_NOTHROW_OWN
	Tracked() noexcept;                                // every special member of the element itself is noexcept; only Tracked <- Other can throw
	Tracked(Tracked const&) noexcept;
	Tracked(Tracked&&) noexcept;
	Tracked& operator=(Tracked const&) noexcept;
	Tracked& operator=(Tracked&&) noexcept;
	~Tracked();
	bool operator==(Tracked const&) const;
	bool operator<(Tracked const&) const;
};
#define TRACKED_DEFINED 1
#endif
#ifndef TRACKED_DEFINED
	Tracked() noexcept(false);
	Tracked(Tracked const&) noexcept(false);
#ifdef TRACKED_NOTHROW_MOVE
	Tracked(Tracked&&) noexcept;                       // like std::string / std::vector: moves cannot throw, copies can
	Tracked& operator=(Tracked const&) noexcept(false);
	Tracked& operator=(Tracked&&) noexcept;
#else
	Tracked(Tracked&&) noexcept(false);
	Tracked& operator=(Tracked const&) noexcept(false);
	Tracked& operator=(Tracked&&) noexcept(false);
#endif
#ifndef TRACKED_TRIVIAL_DTOR
	~Tracked();                                        // (with TRACKED_TRIVIAL_DTOR: trivially destructible, everything else as above - like std::complex with a user default constructor)
#endif
	bool operator==(Tracked const&) const;
	bool operator<(Tracked const&) const;
};
#endif
#endif
template<class T, bool POCCA = false, bool POCMA = false, bool POCS = false, bool AE = false>
struct ObsAlloc {
	using value_type = T;
	using propagate_on_container_copy_assignment = std::integral_constant<bool, POCCA>;
	using propagate_on_container_move_assignment = std::integral_constant<bool, POCMA>;
	using propagate_on_container_swap            = std::integral_constant<bool, POCS>;
	using is_always_equal                        = std::integral_constant<bool, AE>;
	long id;
	ObsAlloc() noexcept;
	explicit ObsAlloc(long) noexcept;
	template<class U> ObsAlloc(ObsAlloc<U, POCCA, POCMA, POCS, AE> const&) noexcept;
	ObsAlloc(ObsAlloc const&) noexcept;
	ObsAlloc& operator=(ObsAlloc const&) noexcept;
	T* allocate(std::size_t n);
	void deallocate(T* p, std::size_t n) noexcept;
	template<class U, class... As> void construct(U* p, As&&... as);
	template<class U> void destroy(U* p) noexcept;
	ObsAlloc select_on_container_copy_construction() const;
	template<class U> struct rebind { using other = ObsAlloc<U, POCCA, POCMA, POCS, AE>; };
	friend bool operator==(ObsAlloc const&, ObsAlloc const&) noexcept;
	friend bool operator!=(ObsAlloc const&, ObsAlloc const&) noexcept;
	friend void swap(ObsAlloc&, ObsAlloc&) noexcept;
};
"""


def ops(D):
    """(name, parameter list, body, roles {param index: role}, kind)"""
    o = []

    def add(name, params, body, roles, kind="mutator", only=None):
        o.append(dict(name=name, params=params, body=body, roles=roles, kind=kind, only=only))
    for cls, pre in (("Arr", ""), ("SArr", "s")):
        add(pre + "ctor_default", "void* m", "new(m) %s();" % cls, {0: "ctor"}, "ctor")
        add(pre + "ctor_alloc", "void* m, A const& al", "new(m) %s(al);" % cls, {0: "ctor"}, "ctor")
        add(pre + "ctor_ext", "void* m, Ext const& x", "new(m) %s(x);" % cls, {0: "ctor"}, "ctor")
        add(pre + "ctor_ext_alloc", "void* m, Ext const& x, A const& al", "new(m) %s(x, al);" % cls, {0: "ctor"}, "ctor")
        add(pre + "ctor_ext_elem", "void* m, Ext const& x, Tracked const& e", "new(m) %s(x, e);" % cls, {0: "ctor"}, "ctor")
        add(pre + "ctor_ext_elem_alloc", "void* m, Ext const& x, Tracked const& e, A const& al", "new(m) %s(x, e, al);" % cls, {0: "ctor"}, "ctor")
        add(pre + "ctor_copy", "void* m, %s const& b" % cls, "new(m) %s(b);" % cls, {0: "ctor", 1: "live"}, "ctor")
        add(pre + "ctor_move", "void* m, %s& b" % cls, "new(m) %s(std::move(b));" % cls, {0: "ctor", 1: "live"}, "ctor")
        add(pre + "ctor_from_view", "void* m, Sub const& v", "new(m) %s(v);" % cls, {0: "ctor", 1: "view"}, "ctor")
        add(pre + "ctor_from_view_alloc", "void* m, Sub const& v, A const& al", "new(m) %s(v, al);" % cls, {0: "ctor", 1: "view"}, "ctor")
        add(pre + "ctor_from_cview", "void* m, CSub const& v", "new(m) %s(v);" % cls, {0: "ctor", 1: "view"}, "ctor")
        add(pre + "ctor_from_rvalue_view", "void* m, Sub& v", "new(m) %s(std::move(v));" % cls, {0: "ctor", 1: "view"}, "ctor")
        add(pre + "ctor_from_ref", "void* m, Ref const& r", "new(m) %s(r);" % cls, {0: "ctor", 1: "view"}, "ctor")
        add(pre + "ctor_from_mref", "void* m, Ref& r", "new(m) %s(r);" % cls, {0: "ctor", 1: "view"}, "ctor")
        add(pre + "ctor_from_rref", "void* m, Ref& r", "new(m) %s(std::move(r));" % cls, {0: "ctor", 1: "view"}, "ctor")
        add(pre + "ctor_from_ref_alloc", "void* m, Ref const& r, A const& al", "new(m) %s(r, al);" % cls, {0: "ctor", 1: "view"}, "ctor")
        add(pre + "ctor_iters", "void* m, typename Arr::const_iterator f, typename Arr::const_iterator l", "new(m) %s(f, l);" % cls, {0: "ctor"}, "ctor")
        add(pre + "ctor_iters_alloc", "void* m, typename Arr::const_iterator f, typename Arr::const_iterator l, A const& al", "new(m) %s(f, l, al);" % cls, {0: "ctor"}, "ctor")
        add(pre + "dtor", "%s& a" % cls, "a.~%s();" % cls, {0: "live"}, "dtor")
    add("ctor_move_alloc", "void* m, Arr& b, A const& al", "new(m) Arr(std::move(b), al);", {0: "ctor", 1: "live"}, "ctor")
    add("sctor_from_decay_alloc", "void* m, Arr& b, A const& al", "new(m) SArr(std::move(b), al);", {0: "ctor", 1: "live"}, "ctor")
    # assignments
    add("assign_copy", "Arr& a, Arr const& b", "a = b;", {0: "live", 1: "live"})
    add("assign_move", "Arr& a, Arr& b", "a = std::move(b);", {0: "live", 1: "live"})
    add("assign_view", "Arr& a, Sub const& v", "a = v;", {0: "live", 1: "view"})
    add("assign_cview", "Arr& a, CSub const& v", "a = v;", {0: "live", 1: "view"})
    add("assign_other_alloc_array", "Arr& a, multi::array<Tracked, DD> const& b", "a = b;", {0: "live", 1: "view"})
    add("sassign_copy", "SArr& a, SArr const& b", "a = b;", {0: "live", 1: "live"})
    add("sassign_move", "SArr& a, SArr& b", "a = std::move(b);", {0: "live", 1: "live"})
    add("sassign_view", "SArr& a, Sub const& v", "a = v;", {0: "live", 1: "view"})
    # mutators
    add("clear", "Arr& a", "a.clear();", {0: "live"})
    add("reextent", "Arr& a, Ext const& x", "a.reextent(x);", {0: "live"})
    add("reextent_fill", "Arr& a, Ext const& x, Tracked const& e", "a.reextent(x, e);", {0: "live"})
    add("reextent_rvalue", "Arr& a, Ext const& x", "std::move(a).reextent(x);", {0: "live"})
    add("reshape", "Arr& a, Ext const& x", "a.reshape(x);", {0: "live"})
    o[-1]["precondition"] = "reshape requires num_elements(x) == num_elements() (asserted by the library in debug builds)"
    add("swap_member", "Arr& a, Arr& b", "a.swap(b);", {0: "live", 1: "live"})
    add("swap_free", "Arr& a, Arr& b", "swap(a, b);", {0: "live", 1: "live"})
    add("sswap_free", "SArr& a, SArr& b", "swap(a, b);", {0: "live", 1: "live"})
    add("assign_iters", "Arr& a, typename Arr::const_iterator f, typename Arr::const_iterator l", "a.assign(f, l);", {0: "live"})
    add("assign_ilist", "Arr& a, std::initializer_list<typename Arr::value_type> il", "a = il;", {0: "live"})
    # through views (C05)
    add("view_assign_view", "Sub& v, CSub const& w", "v = w;", {0: "view", 1: "view"}, "view")
    add("view_assign_array", "Sub& v, Arr const& b", "v = b;", {0: "view", 1: "live"}, "view")
    add("view_move_assign", "Sub& v, Sub& w", "v = std::move(w);", {0: "view", 1: "view"}, "view")
    add("view_assign_constptr_view", "Sub& v, multi::subarray<Tracked, DD, Tracked const*> const& w", "v = w;", {0: "view", 1: "view"}, "view")
    add("rvalue_view_assign_view", "Sub& v, CSub const& w", "std::move(v) = w;", {0: "view", 1: "view"}, "view")
    add("rvalue_view_assign_constptr_view", "Sub& v, multi::subarray<Tracked, DD, Tracked const*> const& w", "std::move(v) = w;", {0: "view", 1: "view"}, "view")
    add("view_swap", "Sub& v, Sub& w", "swap(std::move(v), std::move(w));", {0: "view", 1: "view"}, "view")
    add("view_elements_assign", "Sub& v, CSub const& w", "v.elements() = w.elements();", {0: "view", 1: "view"}, "view")
    add("view_elements_assign_same", "Sub& v, Sub& w", "v.elements() = w.elements();", {0: "view", 1: "view"}, "view")
    add("named_view_assign_temporary_view", "Sub& v, Arr& b", "v = b();", {0: "view", 1: "live"}, "view")
    add("named_view_assign_moved_view", "Sub& v, Sub& w", "v = w.element_moved();", {0: "view", 1: "view"}, "view")
    # what the standard algorithms do with dereferenced (proxy) iterators (C03)
    add("iter_move_assign", "It it, It jt", "*it = std::move(*jt);", {}, "view", "C03")
    add("iter_assign_value", "It it, multi::array<Tracked, DD>& val", "*it = std::move(val);", {}, "view", "C03")
    add("iter_swap", "It it, It jt", "std::iter_swap(it, jt);", {}, "view", "C03")
    add("value_from_iter", "void* m, It it", "new(m) Arr(*it);", {0: "ctor"}, "ctor", "C03")
    add("array_paren_assign", "Arr& a, Arr const& b", "a() = b();", {0: "live", 1: "live"}, "view")
    add("ref_assign_ref", "Ref& r, Ref const& q", "r = q;", {0: "view", 1: "view"}, "view")
    add("ref_move_assign", "Ref& r, Ref& q", "r = std::move(q);", {0: "view", 1: "view"}, "view")
    add("rvalue_ref_move_assign", "Ref& r, Ref& q", "std::move(r) = std::move(q);", {0: "view", 1: "view"}, "view")
    add("ref_assign_constptr_ref", "Ref& r, multi::array_ref<Tracked, DD, Tracked const*> const& q", "r = q;", {0: "view", 1: "view"}, "view")
    add("rvalue_ref_assign_constptr_ref", "Ref& r, multi::array_ref<Tracked, DD, Tracked const*> const& q", "std::move(r) = q;", {0: "view", 1: "view"}, "view")
    # controls of the "no raw traversal of a view" rule (R04.viewflat / R05.viewflat): the first must be reported on every run, the guarded ones must not
    add("ctl_view_rawbase", "Sub& v, CSub const& w", "multi::adl_copy_n(w.base(), w.num_elements(), v.base());", {0: "view", 1: "view"}, "view", "ctl")
    add("ctl_view_rawbase_canon", "Sub& v, CSub const& w",
        "if(v.layout() == typename Sub::layout_type(v.extensions()) && w.layout() == typename CSub::layout_type(w.extensions())) { multi::adl_copy_n(w.base(), w.num_elements(), v.base()); } else { v = w; }",
        {0: "view", 1: "view"}, "view", "ctl")
    if D == 1:
        add("ctl_view_rawbase_unit", "Sub& v, CSub const& w", "if(std::as_const(v).stride() == 1 && w.stride() == 1) { multi::adl_copy_n(w.base(), w.size(), v.base()); } else { v = w; }",
            {0: "view", 1: "view"}, "view", "ctl")
    if D >= 2:
        add("row_assign_row", "Arr& a, Arr const& b", "a[0] = b[1];", {0: "live", 1: "live"}, "view")
        add("view_fill", "Sub& v, typename Sub::value_type const& row", "v.fill(row);", {0: "view"}, "view")
    else:
        add("view_fill", "Sub& v, Tracked const& e", "v.fill(e);", {0: "view"}, "view")
    return o


def cross_ops(D):
    """operations between operands of different element types (instantiated for the noexcept scan; not trace-analysed)"""
    o = [("view_assign_view", "Sub& v, OSub const& w", "v = w;"),
         ("view_move_assign", "Sub& v, OSub& w", "v = std::move(w);"),
         ("rvalue_view_assign_view", "Sub& v, OSub const& w", "std::move(v) = w;"),
         ("rvalue_view_move_assign", "Sub& v, OSub& w", "std::move(v) = std::move(w);"),
         ("view_assign_array", "Sub& v, OArr const& b", "v = b;"),
         ("ref_assign_ref", "Ref& r, ORef const& q", "r = q;"),
         ("rvalue_ref_assign_ref", "Ref& r, ORef const& q", "std::move(r) = q;"),
         ("array_assign_array", "Arr& a, OArr const& b", "a = b;"),
         ("array_assign_view", "Arr& a, OSub const& w", "a = w;"),
         ("array_from_array", "void* m, OArr const& b", "new(m) Arr(b);"),
         ("array_from_view", "void* m, OSub const& w", "new(m) Arr(w);"),
         ("elements_assign", "Sub& v, OSub const& w", "v.elements() = w.elements();")]
    return o


def gen_driver(path, D, alloc="ObsAlloc<Tracked>", defines=""):
    lines = [defines, TYPES,
             "constexpr multi::dimensionality_type DD = %d;" % D,
             "using A = %s;" % alloc,
             "using Arr = multi::array<Tracked, DD, A>; using SArr = multi::static_array<Tracked, DD, A>;",
             "using Ref = multi::array_ref<Tracked, DD>; using Sub = multi::subarray<Tracked, DD>; using CSub = multi::const_subarray<Tracked, DD, Tracked*>;",
             "using Ext = multi::extensions_t<DD>; using It = typename multi::array<Tracked, DD + 1>::iterator;",
             "static_assert(sizeof(multi::array<Tracked, DD>) > 0 && sizeof(Arr) > 0 && sizeof(SArr) > 0 && sizeof(Ref) > 0 && sizeof(Sub) > 0 && sizeof(CSub) > 0, \"\");"]
    for op in ops(D):
        lines.append('extern "C" void d_%s(%s) { %s }' % (op["name"], op["params"], op["body"]))
    lines.append("using OSub = multi::subarray<Other, DD>; using OArr = multi::array<Other, DD>; using ORef = multi::array_ref<Other, DD>;")
    for name, params, body in cross_ops(D):
        lines.append('extern "C" void x_%s(%s) { %s }' % (name, params, body))
    # direct instantiation of every construct-in-a-loop helper (R09.rollback instances)
    lines.append("""
#ifndef TRACKED_TRIVIAL
extern "C" void d_prim_helpers(A& al, Tracked* first, Tracked* dest, long n, Tracked const& v) {
	multi::xtd::alloc_uninitialized_value_construct_n(al, dest, n);
	multi::xtd::alloc_uninitialized_default_construct_n(al, dest, n);
	multi::xtd::alloc_uninitialized_copy_n(al, first, n, dest);
	multi::xtd::alloc_uninitialized_move_n(al, first, n, dest);
	multi::xtd::alloc_uninitialized_fill_n(al, dest, n, v);
	multi::uninitialized_move_n(al, first, n, dest);
#ifndef TRACKED_TDC
	multi::uninitialized_default_construct_n(al, dest, n);
	multi::uninitialized_value_construct_n(al, dest, n);
#endif
}
#endif
""")
    with open(path, "w") as fh:
        fh.write("\n".join(lines) + "\n")


class Module:
    """compiled driver: IR module, interpreter, record layouts"""

    def __init__(self, wd, tag, D, alloc="ObsAlloc<Tracked>", defines=("-DNDEBUG",), prelude=""):
        self.D, self.alloc, self.tag = D, alloc, tag
        self.src = os.path.join(wd, "own_%s.cpp" % tag)
        gen_driver(self.src, D, alloc, prelude)
        text = ir0.emit_o0(self.src, self.src[:-4] + ".ll", defines=defines)
        self.mod = ir0.parse(text)
        ir0.demangle_all(self.mod)
        recs = layouts.parse(layouts.dump(self.src, defines=defines))
        self.offs = layouts.owning_offsets(recs, r"^boost::multi::(static_array|array|array_ref|subarray|const_subarray)<(?:Tracked|int), %d[,>]" % D)
        self.interp = absint.Interp(self.mod)
        self.ops = {o["name"]: o for o in ops(D)}

    def offsets_for(self, ptype):
        """record offsets for a driver parameter type name (Arr, SArr, Ref, Sub, CSub)"""
        pat = {"Arr": r"^boost::multi::array<(Tracked|int)", "SArr": r"^boost::multi::static_array<(Tracked|int)", "Ref": r"^boost::multi::array_ref<(Tracked|int)",
               "Sub": r"^boost::multi::subarray<(Tracked|int)", "CSub": r"^boost::multi::const_subarray<(Tracked|int)"}[ptype]
        for n, o in self.offs.items():
            if re.search(pat, n) and o["base"] is not None:
                if ptype in ("Arr", "SArr") and "ObsAlloc" not in n and "polymorphic" not in n and self.alloc.split("<")[0] not in n:
                    continue
                return o
        raise common.AnalysisBroken("no record layout for %s in %s" % (ptype, self.tag))

    def local_offs(self):
        out = {}
        for t, p in (("array", "Arr"), ("static_array", "SArr"), ("array_ref", "Ref"), ("subarray", "Sub"), ("const_subarray", "CSub")):
            try:
                out[t] = self.offsets_for(p)
            except common.AnalysisBroken:
                pass
        return out

    def param_types(self, op):
        out = []
        for p in op["params"].split(","):
            p = p.strip()
            m = re.match(r"^(?:typename )?([\w:<>, ]+?)(?: const)?\s*[&*]*\s*\w+$", p)
            out.append(p)
        return out

    def traces(self, opname):
        f = self.mod.funcs.get("d_" + opname)
        if f is None:
            raise common.AnalysisBroken("driver function d_%s missing" % opname)
        outs = self.interp.run(f.name)
        if not outs and getattr(self.interp, "truncated", None):
            raise absint.Limit("every path of %s runs round a loop of the interpreted layer more than the unrolling bound: %s" % (opname, sorted(self.interp.truncated)[:2]))
        return outs

    def objspecs(self, op):
        specs = {}
        plist = [p.strip() for p in op["params"].split(",")]
        ctor_cls = None
        m = re.search(r"new\(m\) (\w+)\(", op["body"])
        if m:
            ctor_cls = m.group(1)
        for k, role in op["roles"].items():
            p = plist[k]
            if role == "ctor":
                ty = ctor_cls
            else:
                ty = re.match(r"^(?:typename )?(\w+)", p).group(1)
                if ty == "multi":
                    ty = "OtherArr" if "multi::array<" in p else "Sub"
            if ty == "OtherArr":
                offs = None
                for n, o in self.offs.items():
                    if re.search(r"^boost::multi::array<(Tracked|int), \d+(, std::allocator<(Tracked|int)>)?>$", n):
                        offs = o
                if offs is None:
                    raise common.AnalysisBroken("no layout for std::allocator array")
            else:
                offs = self.offsets_for(ty)
            specs["p%d" % k] = dict(region=("param", k), role=role, offs=offs)
        return specs


def zero_counts(pc, sim):
    """count terms that the path condition fixes to zero / non-zero, and count equalities it asserts"""
    z, nz, eq = set(), set(), []
    for c, v in pc.items():
        if isinstance(c, tuple) and c and c[0] == "cmp" and c[1] == "eq":
            if c[3] == ("c", 0):
                n = sim.norm_count(c[2])
                (z if v else nz).add(n)
            elif v:
                a, b = sim.norm_count(c[2]), sim.norm_count(c[3])
                if a[0] == "numel" and b[0] == "numel":
                    eq.append((a, b))
        if isinstance(c, tuple) and c and c[0] == "call" and c[1].endswith("layout_t::is_empty() const") and c[2]:
            n = ("numel", sim.numel_arg(sim.canon_layout(c[2][0])))
            (z if v else nz).add(n)
    z.add(("numel", ("empty",)))
    changed = True
    while changed:
        changed = False
        for a, b in eq:
            for u, v in ((a, b), (b, a)):
                if u in z and v not in z:
                    z.add(v)
                    changed = True
    return z, nz, eq


def analyse_op(module, opname, keep_assert_paths=False):
    """returns list of dict(outcome, findings, log, throw) one per trace"""
    op = module.ops[opname]
    res = []
    outs = module.traces(opname)
    numel = None
    for kind, rv, path in outs:
        if kind == "terminate" and any(e[0] == "terminate" and e[1] == "__assert_fail" for e in path.events) and not keep_assert_paths:
            continue
        sim = typestate.Sim(module.objspecs(op), numel, module.local_offs())
        z, nz, eq = zero_counts(path.pc, sim)
        if ("numel", ("empty",)) in nz:
            continue        # infeasible: the path assumes that an empty layout has elements
        sim.zero = z
        sim.count_eq = eq
        if op.get("precondition"):
            sim.assume_any_count_equal = True
        thrower = None
        for ev in path.events:
            if ev[0] == "throws":
                thrower = ev[1:]
                continue
            if ev[0] in ("construct", "destroy", "dealloc", "alloc"):
                # no-op when the path condition fixes the element count to zero
                cnts = [sim.norm_count(t) for t in (ev[3] if len(ev) > 3 else ())]
                if any(c in z for c in cnts):
                    if ev[0] == "alloc":
                        pass
                    else:
                        continue
            sim.feed(ev)
        # layouts with zero elements behave as empty
        for o in sim.objs.values():
            l = o.layout
            key = ("numel", sim.numel_arg(l if l and l[0] == "L0" else sim.canon_layout(typestate.strip(l))))
            if key in z:
                o.layout = ("empty",)
        if op["kind"] == "dtor":
            for o in sim.objs.values():
                o.layout = ("empty",)      # destroyed object owns nothing afterwards
        f = sim.finish("unwind" if kind == "unwind" else "terminate" if kind == "terminate" else "ret")
        res.append(dict(outcome=kind, findings=list(f), log=list(sim.log), thrower=thrower, events=path.events, pc=path.pc, sim=sim))
    return res

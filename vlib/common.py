"""Shared infrastructure of the /verif static-analysis framework.

Every check builds a `Report`, records obligations (discharged / violated / inconclusive), and calls
`finish()`, which matches violations against /verif/known_findings.json, writes the evidence file and the
replay files, prints the protocol lines and returns the exit code:
  0  all obligations discharged (KNOWN-FINDING lines for listed findings that still reproduce)
  1  at least one violation not listed in known_findings.json (VIOLATION lines)
  2  analysis broken (anchor vanished, rule matched too few instances, driver does not compile ...)
"""
import atexit
import hashlib
import json
import os
import re
import shutil
import subprocess
import sys
import time

VERIF = os.path.dirname(os.path.dirname(os.path.abspath(__file__)))
REPO = os.environ.get("VERIF_REPO", "/repo")
INCLUDE = os.path.join(REPO, "include")
BUILD = os.path.join(VERIF, "build")
# checks pointed at a scratch tree (VERIF_REPO=...) never touch the committed evidence
EVIDENCE = os.path.join(VERIF, "evidence") if REPO == "/repo" else os.path.join(BUILD, "evidence-scratch")
REPLAY = os.path.join(EVIDENCE, "replay")
KNOWN = os.path.join(VERIF, "known_findings.json")
CXX = "clang++"
STD = "-std=gnu++17"
NCPU = os.cpu_count() or 4


class AnalysisBroken(Exception):
    pass


def tier_from_env(argv_tier=None):
    t = argv_tier or os.environ.get("VERIF_TIER") or "quick"
    return "thorough" if t.startswith("t") else "quick"


def seed_from_env():
    try:
        return int(os.environ.get("VERIF_SEED", "0"))
    except ValueError:
        return 0


def resource_dir():
    return subprocess.check_output([CXX, "-print-resource-dir"], text=True).strip()


_tree_hash = None


def tree_hash():
    """sha256 over every file below /repo/include (names + bytes); cache key for derived artefacts."""
    global _tree_hash
    if _tree_hash is None:
        h = hashlib.sha256()
        for root, dirs, files in os.walk(INCLUDE):
            dirs.sort()
            for f in sorted(files):
                p = os.path.join(root, f)
                h.update(p.encode())
                with open(p, "rb") as fh:
                    h.update(fh.read())
        _tree_hash = h.hexdigest()[:20]
    return _tree_hash


_workdirs = {}


def _cleanup_workdirs(owner):
    if os.getpid() != owner:          # forked pool workers must not remove the parent's directories
        return
    for d in _workdirs.values():
        shutil.rmtree(d, ignore_errors=True)


def workdir(name):
    """scratch directory private to this run (checks may run concurrently, also two tiers of one check): build/work/<name>.<pid>, removed at exit;
    directories left behind by killed runs are removed when their process no longer exists"""
    if name in _workdirs:
        return _workdirs[name]
    root = os.path.join(BUILD, "work")
    os.makedirs(root, exist_ok=True)
    if not _workdirs:
        atexit.register(_cleanup_workdirs, os.getpid())
        for e in os.listdir(root):
            m = re.match(r"^.*\.(\d+)$", e)
            if not m or not os.path.exists("/proc/%s" % m.group(1)):
                shutil.rmtree(os.path.join(root, e), ignore_errors=True)
    d = os.path.join(root, "%s.%d" % (name, os.getpid()))
    os.makedirs(d, exist_ok=True)
    _workdirs[name] = d
    return d


def run(cmd, **kw):
    return subprocess.run(cmd, text=True, stdout=subprocess.PIPE, stderr=subprocess.PIPE, **kw)


def src_line(path, line):
    try:
        with open(path) as fh:
            for i, l in enumerate(fh, 1):
                if i == line:
                    return l.rstrip("\n")
    except OSError:
        pass
    return ""


def rel(path):
    return os.path.relpath(path, REPO) if path.startswith(REPO) else path


def slug(s):
    return re.sub(r"[^A-Za-z0-9_.=+-]+", "_", s)[:120] + "-" + hashlib.sha1(s.encode()).hexdigest()[:6]


def load_known():
    with open(KNOWN) as fh:
        data = json.load(fh)
    return data


class Report:
    def __init__(self, pid, tier, level, rule_text):
        self.pid = pid
        self.tier = tier
        self.level = level
        self.rule_text = rule_text
        self.t0 = time.time()
        self.obligations = []   # dicts: key, family, status, detail
        self.samples = []
        self.extra = {}
        self.trusted = []
        self.assumptions = []
        self.explanation = ""
        self.checker_cmd = ""
        self.instances = {}     # rule -> (found, min)
        self.units = set()
        self.exhaustive = None
        self.broken = []

    # ---- recording -------------------------------------------------------------------------------
    def ok(self, key, family, detail=None, nontrivial=True):
        self.obligations.append(dict(key=key, family=family, status="ok", detail=detail, nontrivial=nontrivial))

    def violated(self, key, family, what, detail=None):
        """key: semantic identity (rule + function signature + obligation); never a line number."""
        self.obligations.append(dict(key=key, family=family, status="violated", what=what, detail=detail, nontrivial=True))

    def inconclusive(self, key, family, why):
        self.obligations.append(dict(key=key, family=family, status="inconclusive", what=why, detail=None, nontrivial=True))
        self.broken.append("obligation %s inconclusive: %s" % (key, why))

    def sample(self, s):
        if len(self.samples) < 12:
            self.samples.append(s)

    def need_instances(self, rule, found, minimum):
        self.instances[rule] = dict(found=found, min=minimum)
        if found < minimum:
            self.broken.append("rule %s matched %d instances, fewer than the %d confirmed by hand" % (rule, found, minimum))

    def break_(self, reason):
        self.broken.append(reason)

    # ---- finishing -------------------------------------------------------------------------------
    def finish(self):
        os.makedirs(EVIDENCE, exist_ok=True)
        os.makedirs(REPLAY, exist_ok=True)
        known = load_known()
        known_keys = {f["key"]: f for f in known.get("findings", []) if f.get("property") == self.pid}
        viol = [o for o in self.obligations if o["status"] == "violated"]
        new, listed = [], []
        for o in viol:
            # a sub-case of a listed obligation (the case was partitioned on a comparison, key suffix ",{...}") is the listed failing case
            base_key = re.sub(r",?\{[^{}]*\}", "", o["key"])
            if o["key"] not in known_keys and base_key in known_keys:
                o["key"] = base_key
            (listed if o["key"] in known_keys else new).append(o)
        lines = []
        reported = set()
        for o in listed:
            if o["key"] in reported:
                continue
            reported.add(o["key"])
            lines.append("KNOWN-FINDING: property=%s %s [%s]" % (self.pid, known_keys[o["key"]]["what"], o["key"]))
        code = 0
        seen_new = set()
        for stale in os.listdir(REPLAY):          # replay files of earlier runs of this property
            if stale.startswith(self.pid + "-"):
                try:
                    os.remove(os.path.join(REPLAY, stale))
                except FileNotFoundError:
                    pass
        for o in new:
            if o["key"] in seen_new:
                continue
            seen_new.add(o["key"])
            path = os.path.join(REPLAY, "%s-%s.json" % (self.pid, slug(o["key"])))
            with open(path, "w") as fh:
                json.dump(dict(property=self.pid, key=o["key"], family=o["family"], what=o["what"], detail=o["detail"],
                               tier=self.tier, replay="bin/vcheck replay " + path), fh, indent=1, default=str)
            lines.append("VIOLATION property=%s replay=%s" % (self.pid, path))
            lines.append("  rule=%s instance=%s : %s" % (o["family"], o["key"], o["what"]))
            code = 1
        if self.broken and code == 0:
            code = 2
        for b in self.broken:
            lines.append("ANALYSIS-BROKEN property=%s reason=%s" % (self.pid, b))
        n = len(self.obligations)
        n_ok = sum(1 for o in self.obligations if o["status"] == "ok")
        distinct = len({o["key"] for o in self.obligations if o.get("nontrivial")})
        n_claimed = n - len(listed) if self.level == "proof" else n
        cov = dict(
            obligations=n_claimed, discharged=n_ok,
            obligations_total_including_known_findings=n, known_finding_obligations=len(listed),
            evaluations=n, distinct_nontrivial=distinct,
            rule=self.rule_text, samples=self.samples or [o["key"] for o in self.obligations[:5]],
            checker_cmd=self.checker_cmd or ("bin/vcheck %s --tier %s" % (self.pid, self.tier)),
            trusted_base=self.trusted, explanation=self.explanation or self.rule_text,
            rule_instances=self.instances, units_analysed=sorted(self.units),
            known_findings_reproduced=sorted(reported),
            violations_new=[o["key"] for o in new],
            analysis_broken=self.broken,
            families=_count_by(self.obligations, "family"),
            repo_include_sha=tree_hash(),
        )
        if self.exhaustive is not None:
            cov["exhaustive"] = self.exhaustive
        cov.update(self.extra)
        level = self.level
        if level == "proof" and n_ok != n_claimed:
            # a proof-level file must have discharged == obligations; with open obligations the run is reported as such
            cov["explanation"] = (cov["explanation"] + " | NOTE: %d of %d obligations not discharged on this run (known findings "
                                  "and/or new violations); the proof claim covers the discharged ones only." % (n_claimed - n_ok, n_claimed))
        ev = dict(property_id=self.pid, tier=self.tier, seed=seed_from_env(), level=level, coverage=cov,
                  assumptions=self.assumptions, wall_s=round(time.time() - self.t0, 2),
                  violations=len(new))
        tmp = os.path.join(EVIDENCE, ".%s.%d.tmp" % (self.pid, os.getpid()))      # concurrent tiers of one check: the file is replaced whole
        with open(tmp, "w") as fh:
            json.dump(ev, fh, indent=1, default=str)
        os.replace(tmp, os.path.join(EVIDENCE, self.pid + ".json"))
        for l in lines:
            print(l)
        print("%s tier=%s obligations=%d discharged=%d known=%d new=%d broken=%d wall=%.1fs exit=%d" % (
            self.pid, self.tier, n, n_ok, len(listed), len(new), len(self.broken), time.time() - self.t0, code))
        return code


def _count_by(obls, field):
    out = {}
    for o in obls:
        d = out.setdefault(o[field], dict(total=0, ok=0))
        d["total"] += 1
        d["ok"] += o["status"] == "ok"
    return out

"""Typestate simulation of owning-array objects over event traces produced by vlib.absint.

Abstract state of a tracked owning array X:  base (pointer value term), layout (term), and a table of storages keyed by pointer
value: allocated?, elements alive?, size term (count requested from the allocator), allocator identity.
INV(X):  layout is the empty layout  and owns nothing   OR   storage(base) is allocated, alive, and size == num_elements(layout).
The simulator reports, per trace: construct-over-live, destroy/assign/read of dead elements, double destroy, deallocate of foreign /
unallocated / live storage, size mismatch at deallocate, leaks at exit, and INV at normal exit and at every exceptional exit.
"""
import re

NUMEL = re.compile(r"(layout_t|extensions_t)::num_elements\(\) const$")


def strip(t):
    """normalise a term: drop value-wrapper constructors so that structurally equal values compare equal"""
    if isinstance(t, tuple):
        if t and t[0] in ("@", "obj", "copyof") and len(t) == 2:
            return strip(t[1])
        if t and t[0] == "call":
            name = t[1]
            args = tuple(strip(a) for a in t[2])
            # a constructor term: drop the `this` argument (address of the object being built); idempotent via the "ctor" tag
            if _is_ctor_name(name):
                return ("ctor", name, args[1:])     # drop `this` (the object under construction)
            return ("call", name, args)
        return tuple(strip(x) for x in t)
    return t


def _is_ctor_name(name):
    m = re.match(r"^(.*?)::([~\w]+)\(", name)
    return bool(m) and m.group(2) == m.group(1).split("::")[-1]


def find_storage(term, objs):
    """first pointer-value inside a term that denotes an element storage: heap pointer or the initial base_ of a tracked object"""
    found = []

    def walk(t):
        if found or not isinstance(t, tuple) or not t:
            return
        if t[0] in ("p", "ref") and len(t) > 1 and isinstance(t[1], tuple) and t[1] and t[1][0] == "heap":
            found.append(("heap", t[1][1]))
            return
        if t[0] == "init" and isinstance(t[1], tuple):
            for name, o in objs.items():
                if t[1] == o["region"] and t[2] == o["base_off"]:
                    found.append(("init", name))
                    return
        for x in t:
            walk(x)
    walk(term)
    return found[0] if found else None


class Obj:
    def __init__(self, name, region, role, offs):
        self.name, self.region, self.role = name, region, role
        self.base_off, self.lay_off, self.lay_size, self.alloc_off = offs["base"], offs["layout"], offs["layout_size"], offs.get("alloc")
        if role in ("live", "view"):
            self.base = ("init", name)
            self.layout = ("L0", name)
        else:
            self.base = ("uninit",)
            self.layout = ("uninit",)
        self.alloc = ("A0", name) if role in ("live", "view") else ("uninit",)


def is_empty_layout(l):
    s = repr(strip(l))
    return l == ("empty",) or (("extensions_t::extensions_t()" in s or "'zero'" in s) and "param" not in s and "arg" not in s)


class Sim:
    def __init__(self, objspecs, numel_name, local_offs=None):
        """objspecs: name -> dict(region=..., role='live'|'ctor'|'view', offs=...); local_offs: tracked type name -> offsets"""
        self.local_offs = local_offs or {}
        self.objs = {n: Obj(n, s["region"], s["role"], s["offs"]) for n, s in objspecs.items()}
        self.hist = {}     # region -> {version: (base, layout)}
        self.ver = {}
        self.lookup = {n: dict(region=o.region, base_off=o.base_off) for n, o in self.objs.items()}
        self.numel_name = numel_name
        self.storages = {}
        for n, o in self.objs.items():
            if o.role in ("live", "view"):
                self.storages[("init", n)] = dict(allocated=True, alive=True, size=("numel", ("L0", n)), owner0=n, alloc=("A0", n), foreign=o.role == "view")
        self.findings = []
        self.log = []
        self.zero = set()
        self.count_eq = []
        self.unknown = []

    def obj_of_region(self, region, create=True):
        for o in self.objs.values():
            if o.region == region:
                return o
        if create and isinstance(region, tuple) and region and region[0] == "alloca" and len(region) > 3 and region[3] in self.local_offs:
            name = "local%d.%s" % (region[1], region[2].lstrip("%"))
            o = Obj(name, region, "local", self.local_offs[region[3]])
            o.kind = region[3]
            self.objs[name] = o
            self.lookup[name] = dict(region=region, base_off=o.base_off)
            return o
        return None

    def snapshot(self, o):
        v = self.ver.get(o.region, 0) + 1
        self.ver[o.region] = v
        self.hist.setdefault(o.region, {})[v] = (o.base, o.layout)

    def size_of_layout(self, l):
        return ("numel", l)

    def norm_count(self, term):
        """count term -> canonical ('numel', layout) if it is num_elements() of a recognisable layout value"""
        t = strip(term)
        # unwrap static_cast / conversions: look for the num_elements call
        def walk(x):
            if isinstance(x, tuple) and x:
                if x[0] == "call" and NUMEL.search(x[1]):
                    return x
                for y in x:
                    r = walk(y)
                    if r is not None:
                        return r
            return None
        c = walk(t)
        if c is None:
            return ("count", t)
        arg = c[2][0] if c[2] else None
        if "extensions_t::num_elements" in c[1]:
            # element count of an extents value == element count of the layout built from it (value-layer fact, C01 O01.root)
            arg = ("ctor", "layout_t::layout_t(extensions_t const&)", (strip(arg),))
        l = self.numel_arg(self.canon_layout(arg))
        if l == ("empty",) or is_empty_layout(l):
            return ("numel", ("empty",))
        return ("numel", l)

    def same_count(self, a, b):
        if a == b or getattr(self, "assume_any_count_equal", False):
            return True
        # equalities asserted by the path condition (e.g. `if(num_elements() == other.extensions().num_elements())`)
        seen, todo = {a}, [a]
        while todo:
            x = todo.pop()
            for p, q in self.count_eq:
                for u, v in ((p, q), (q, p)):
                    if u == x and v not in seen:
                        seen.add(v)
                        todo.append(v)
        return b in seen

    def numel_arg(self, l):
        """num_elements(layout_t(extensions(L))) == num_elements(L): the extents round trip preserves the element count
        (value-layer fact, discharged by C01's O01.root / O01.shape obligations)"""
        if isinstance(l, tuple) and len(l) == 3 and l[0] == "ctor" and l[1].endswith("layout_t::layout_t(extensions_t const&)") and l[2]:
            e = l[2][0]
            if isinstance(e, tuple) and len(e) == 3 and e[0] == "call" and e[1].endswith("layout_t::extensions() const") and e[2]:
                return self.numel_arg(self.canon_layout(e[2][0]))
        return l

    def canon_layout(self, l):
        l = strip(l)
        if isinstance(l, tuple) and l and l[0] == "ref":
            o = self.obj_of_region(l[1])
            if o is not None and l[2] == o.lay_off:
                lay = o.layout
                if len(l) > 3:
                    h = self.hist.get(o.region, {})
                    if l[3] == 0:
                        lay = ("L0", o.name) if o.role in ("live", "view") else ("uninit",)
                    elif l[3] in h:
                        lay = h[l[3]][1]
                return lay if lay[0] in ("L0",) else strip(lay)
        if isinstance(l, tuple) and l and l[0] == "L0":
            return l
        return l

    def bad(self, rule, msg):
        self.findings.append((rule, msg))

    def storage_of(self, term):
        s = find_storage(term, self.lookup)
        return s

    # ---- event dispatch -------------------------------------------------------------------------------------------
    def feed(self, ev):
        k = ev[0]
        if k == "throws":
            return
        if k == "alloc":
            heap, args, argterms = ev[1], ev[2], ev[3]
            cnt = self.norm_count(argterms[1]) if len(argterms) > 1 else ("count", "?")
            alloc = self.alloc_identity(args[0]) if args else ("?",)
            self.storages[("heap", heap[1])] = dict(allocated=True, alive=False, size=cnt, owner0=None, alloc=alloc, foreign=False)
            self.log.append("alloc heap%d size=%s by %s" % (heap[1], short_t(cnt), alloc))
            return
        if k == "dealloc":
            args, argterms = ev[2], ev[3]
            s = self.storage_of(argterms[1]) if len(argterms) > 1 else None
            cnt = self.norm_count(argterms[2]) if len(argterms) > 2 else ("count", "?")
            alloc = self.alloc_identity(args[0]) if args else ("?",)
            self.log.append("dealloc %s count=%s by %s" % (s, short_t(cnt), alloc))
            if s is None and self.zero and len(argterms) > 1 and has_null(argterms[1]):
                return
            if s is None:
                self.bad("R08.dealloc-unknown", "deallocate of a pointer that is not a known storage: %s" % short_t(argterms[1]))
                return
            st = self.storages.get(s)
            if st is None or not st["allocated"]:
                self.bad("R08.double-free", "deallocate of storage %s that is not allocated (double free)" % (s,))
                return
            if st["alive"]:
                self.bad("R08.dealloc-live", "deallocate of storage %s whose elements are still alive (destroy missing)" % (s,))
            if not self.same_count(st["size"], cnt):
                self.bad("R08.count", "deallocate(%s) with count %s but the block was requested with %s" % (s, short_t(cnt), short_t(st["size"])))
            if st["alloc"] != alloc:
                self.bad("R10.dealloc-alloc", "storage %s allocated through %s is released through %s" % (s, st["alloc"], alloc))
            st["allocated"] = False
            return
        if k == "construct":
            name, args, argterms = ev[1], ev[2], ev[3]
            dest = self.dest_of(name, argterms)
            s = self.storage_of(dest) if dest is not None else None
            self.log.append("construct(%s) into %s" % (name, s))
            if s is None and self.zero and has_null(dest):
                return      # range over the null storage of a zero-element array: no elements
            if s is None:
                self.bad("R08.construct-unknown", "element construction into an unknown destination: %s" % short_t(dest))
                return
            st = self.storages.get(s)
            if st is None or not st["allocated"]:
                self.bad("R08.construct-unallocated", "element construction into storage %s that is not allocated" % (s,))
                return
            if st["alive"]:
                self.bad("R08.construct-over-live", "elements constructed over live objects in storage %s (%s)" % (s, name))
            st["alive"] = True
            return
        if k == "destroy":
            name, args, argterms = ev[1], ev[2], ev[3]
            s = None
            for t in argterms[1:]:
                s = self.storage_of(t)
                if s is not None:
                    break
            self.log.append("destroy in %s" % (s,))
            if s is None and self.zero and any(has_null(t) for t in argterms[1:]):
                return
            if s is None:
                self.bad("R08.destroy-unknown", "destroy_n on an unknown range")
                return
            st = self.storages.get(s)
            if st is None or not st["allocated"]:
                self.bad("R08.destroy-unallocated", "elements destroyed in storage %s that is not allocated" % (s,))
                return
            if not st["alive"]:
                self.bad("R08.double-destroy", "elements of storage %s destroyed while not alive (double destroy / destroy of unconstructed)" % (s,))
            cnt = None
            for t in argterms[2:]:
                c = self.norm_count(t)
                if c[0] == "numel":
                    cnt = c
            if cnt is not None and not self.same_count(st["size"], cnt):
                self.bad("R08.count", "destroy_n over %s elements but storage %s holds %s" % (short_t(cnt), s, short_t(st["size"])))
            st["alive"] = False
            return
        if k == "assign" or k == "compare":
            name, args, argterms = ev[1], ev[2], ev[3]
            for t in argterms[1:]:
                s = self.storage_of(t)
                if s is not None:
                    st = self.storages.get(s)
                    if st is not None and (not st["allocated"] or not st["alive"]):
                        self.bad("R08.use-dead", "%s touches elements of storage %s that are not alive" % (name, s))
            self.log.append("%s" % name)
            return
        if k == "write":
            region, off, val = ev[1], ev[2], ev[3]
            o = self.obj_of_region(region)
            if o is None:
                return
            self._write(o, off, val)
            self.snapshot(o)
            return
        if k == "writeblk":
            region, off, n, src = ev[1], ev[2], ev[3], ev[4]
            o = self.obj_of_region(region)
            if o is None:
                return
            self._writeblk(o, off, n, src)
            self.snapshot(o)
            return
        if k in ("ext", "opaque"):
            name, args = ev[1], ev[2]
            self.ext(name, args, ev[3] if len(ev) > 3 else ())
            return

    def _write(self, o, off, val):
        if True:
            if off == o.base_off:
                s = self.storage_of(val)
                o.base = s if s is not None else (("null",) if val == ("c", 0) else ("val", strip(val)))
                self.log.append("%s.base_ := %s" % (o.name, o.base))
            elif o.alloc_off is not None and off is not None and o.alloc_off <= off < o.lay_off:
                o.alloc = ("assigned", strip(val))
                self.log.append("%s.alloc_ := %s" % (o.name, short_t(val)))
            elif off is None or (o.lay_off <= off < o.lay_off + o.lay_size):
                o.layout = ("modified", o.layout, off)
                self.log.append("%s.layout field write at %s" % (o.name, off))
            return

    def _writeblk(self, o, off, n, src):
        if True:
            if off == o.lay_off:
                l = strip(src)
                # copy of another tracked object's layout (at the version the copy was taken)
                if isinstance(l, tuple) and l and l[0] == "ref":
                    l = self.canon_layout(l)
                o.layout = ("empty",) if is_empty_layout(l) else l
                self.log.append("%s.layout := %s" % (o.name, short_t(o.layout)))
            elif off == o.base_off:
                o.base = ("val", strip(src))
            elif o.alloc_off is not None and off == o.alloc_off:
                o.alloc = ("assigned", strip(src))
            else:
                o.layout = ("modified", o.layout, off)
            return

    def ext(self, name, args, argterms):
        if re.search(r"^swap\(ObsAlloc&, ObsAlloc&\)", name) and len(args) >= 2:
            oa = self.obj_of_region(args[0][1]) if isinstance(args[0], tuple) and args[0][0] == "p" else None
            ob = self.obj_of_region(args[1][1]) if isinstance(args[1], tuple) and args[1][0] == "p" else None
            if oa is not None and ob is not None and oa.alloc_off == args[0][2] and ob.alloc_off == args[1][2]:
                oa.alloc, ob.alloc = ob.alloc, oa.alloc
                self.log.append("swap(%s.alloc_, %s.alloc_)" % (oa.name, ob.name))
                return
        # allocator object construction / assignment into a tracked object's alloc_ slot
        if args and isinstance(args[0], tuple) and args[0] and args[0][0] == "p":
            o = self.obj_of_region(args[0][1])
            if o is not None and o.alloc_off is not None and args[0][2] == o.alloc_off and re.search(r"ObsAlloc|allocator", name):
                src = strip(argterms[1]) if len(argterms) > 1 else ("default",)
                o.alloc = ("alloc-from", self.alloc_term(src), name.split("::")[-1])
                self.log.append("%s.alloc_ := %s via %s" % (o.name, short_t(o.alloc), name))
                return
            if o is not None and re.search(r"layout_t::(operator=|reindex|rotate|unrotate|transpose|partition)", name):
                o.layout = ("modified", o.layout, name)
                self.log.append("%s.layout modified by %s" % (o.name, name))
                return
            if o is not None and not re.search(r"ObsAlloc|Tracked|std::|polymorphic_allocator|memory_resource", name):
                self.unknown.append(name)

    def alloc_term(self, src):
        if isinstance(src, tuple) and src and src[0] == "ref":
            o = self.obj_of_region(src[1])
            if o is not None and o.alloc_off is not None and src[2] == o.alloc_off:
                return ("alloc-of", o.name, o.alloc)
            return src
        if isinstance(src, tuple):
            return tuple(self.alloc_term(x) for x in src)
        return src

    def alloc_identity(self, a):
        """identity of the allocator *value* used by an allocate / deallocate call"""
        if isinstance(a, tuple) and a and a[0] == "p":
            o = self.obj_of_region(a[1])
            if o is not None and o.alloc_off is not None and a[2] == o.alloc_off:
                return o.alloc
            return ("alloc-at", a[1][0], a[2])
        return ("?",)

    def dest_of(self, name, argterms):
        """destination range argument of an element-construction primitive (frozen table, see adl.hpp signatures)"""
        a = list(argterms[1:])          # drop the function object itself
        if re.search(r"alloc_uninitialized_(copy_n|move_n)", name):
            return a[3] if len(a) > 3 else None        # (alloc, first, count, d_first)
        if re.search(r"alloc_uninitialized_copy$|alloc_uninitialized_copy_t$|alloc_uninitialized_move_t$", name):
            return a[3] if len(a) > 3 else None        # (alloc, first, last, d_first)
        if re.search(r"alloc_uninitialized_(fill_n|value_construct_n|default_construct_n)", name):
            return a[1] if len(a) > 1 else None        # (alloc, first, count[, value])
        if re.search(r"uninitialized_(copy_n|move_n)", name):
            # with or without execution policy: destination is last
            return a[-1] if a else None
        if re.search(r"uninitialized_copy", name):
            return a[-1] if a else None
        if re.search(r"uninitialized_(fill_n|value_construct_n|default_construct_n)", name):
            return a[0] if a else None
        return a[-1] if a else None

    # ---- end-of-trace conditions ------------------------------------------------------------------------------------
    def check_inv(self, o, where):
        if o.role in ("view", "local"):
            return
        if o.layout == ("uninit",) and o.base == ("uninit",):
            if where == "ret" and o.role == "ctor":
                self.bad("R08.inv", "constructor returned without initialising %s" % o.name)
            return
        if o.layout == ("empty",) or is_empty_layout(o.layout):
            # owns nothing: whatever base_ points to must not be an allocated storage owned only by this object
            s = o.base if isinstance(o.base, tuple) and o.base and o.base[0] in ("heap", "init") else None
            if s is not None:
                st = self.storages.get(s)
                if st is not None and st["allocated"] and st["size"] not in self.zero and not st.get("foreign") and not self.owned_by_other(s, o):
                    self.bad("R08.inv", "%s: %s has the empty layout but base_ still refers to allocated storage %s (leak: the destructor will not release it)" % (where, o.name, s))
            return
        s = o.base if isinstance(o.base, tuple) and o.base and o.base[0] in ("heap", "init") else None
        if s is None:
            self.bad("R08.inv", "%s: %s has a non-empty layout %s but base_ = %s is not a storage (destructor would destroy/deallocate it)" % (where, o.name, short_t(o.layout), short_t(o.base)))
            return
        st = self.storages.get(s)
        if st is None or not st["allocated"]:
            self.bad("R08.inv", "%s: %s has a non-empty layout over released storage %s (double free on destruction)" % (where, o.name, s))
            return
        if not st["alive"]:
            self.bad("R08.inv", "%s: %s has a non-empty layout over storage %s whose elements are not constructed (destructor destroys unconstructed objects)" % (where, o.name, s))
        want = ("numel", self.numel_arg(o.layout if o.layout[0] == "L0" else self.canon_layout(strip(o.layout))))
        if not self.same_count(st["size"], want):
            self.bad("R08.count", "%s: %s: storage %s was requested with %s elements but the layout says %s" % (where, o.name, s, short_t(st["size"]), short_t(want)))
        # allocator that will release must be the one that allocated
        if o.alloc_off is not None:
            if st["alloc"] == ("A0", st.get("owner0")) and st.get("owner0") != o.name:
                self.adopted.append((o.name, s, st.get("owner0")))

    def owned_by_other(self, s, o):
        for o2 in self.objs.values():
            if o2 is not o and o2.role != "local" and o2.base == s and not (o2.layout == ("empty",)):
                return True
        return False

    def finish(self, outcome):
        self.adopted = []
        # no storage may be referenced by two owning objects with non-empty layouts
        owners = {}
        for o in self.objs.values():
            if o.role in ("view", "local"):
                continue
            if isinstance(o.base, tuple) and o.base and o.base[0] in ("heap", "init") and not (o.layout == ("empty",) or is_empty_layout(o.layout)) and o.layout != ("uninit",):
                owners.setdefault(o.base, []).append(o.name)
        for s, ns in owners.items():
            if len(ns) > 1:
                self.bad("R04.alias", "%s: storage %s is owned by %s at the same time (shared storage / double free)" % (outcome, s, " and ".join(ns)))
        for o in self.objs.values():
            if outcome == "unwind" and o.role == "ctor":
                continue
            self.check_inv(o, outcome)
        # leaks: allocated storages not owned by any tracked object
        for s, st in self.storages.items():
            if not st["allocated"] or st.get("foreign") or st["size"] in self.zero:
                continue
            owned = False
            for o in self.objs.values():
                if o.role in ("view", "local"):
                    continue
                if outcome == "unwind" and o.role == "ctor":
                    continue
                if o.base == s and not (o.layout == ("empty",) or is_empty_layout(o.layout)):
                    owned = True
            if not owned:
                self.bad("R09.leak" if outcome == "unwind" else "R08.leak",
                         "%s: storage %s (%s) is still allocated but no array owns it (leak)" % (outcome, s, "elements alive" if st["alive"] else "raw"))
        return self.findings


def has_null(t):
    if t == ("c", 0):
        return True
    if isinstance(t, tuple):
        return any(has_null(x) for x in t)
    return False


def short_t(t, n=160):
    s = repr(t)
    s = s.replace("boost::multi::", "")
    return s if len(s) <= n else s[:n] + "..."

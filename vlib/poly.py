"""Exact multivariate polynomials over Q with hash-consed opaque atoms (div terms); canonical form = equality test."""
from fractions import Fraction


class Poly:
    __slots__ = ("t",)

    def __init__(self, terms=None):
        # terms: dict  monomial -> Fraction ; monomial = tuple of (symbol, exponent) sorted by symbol
        self.t = {m: c for m, c in (terms or {}).items() if c != 0}

    # ---- constructors ----------------------------------------------------------------------------------------
    @staticmethod
    def const(c):
        return Poly({(): Fraction(c)})

    @staticmethod
    def sym(name):
        return Poly({((name, 1),): Fraction(1)})

    # ---- algebra ---------------------------------------------------------------------------------------------
    def __add__(self, o):
        o = _p(o)
        r = dict(self.t)
        for m, c in o.t.items():
            r[m] = r.get(m, 0) + c
        return Poly(r)

    __radd__ = __add__

    def __neg__(self):
        return Poly({m: -c for m, c in self.t.items()})

    def __sub__(self, o):
        return self + (-_p(o))

    def __rsub__(self, o):
        return _p(o) - self

    def __mul__(self, o):
        o = _p(o)
        r = {}
        for m1, c1 in self.t.items():
            for m2, c2 in o.t.items():
                m = _mmul(m1, m2)
                r[m] = r.get(m, 0) + c1 * c2
        return Poly(r)

    __rmul__ = __mul__

    def __eq__(self, o):
        return self.t == _p(o).t

    def __hash__(self):
        return hash(frozenset(self.t.items()))

    def is_zero(self):
        return not self.t

    def is_const(self):
        return all(m == () for m in self.t)

    def const_value(self):
        return self.t.get((), Fraction(0))

    def symbols(self):
        return {s for m in self.t for s, _ in m}

    def subst(self, env):
        """env: symbol -> Poly"""
        if not (self.symbols() & set(env)):
            return self
        out = Poly()
        for m, c in self.t.items():
            term = Poly.const(c)
            for s, e in m:
                b = env.get(s)
                if b is None:
                    b = Poly.sym(s)
                for _ in range(e):
                    term = term * b
            out = out + term
        return out

    def divexact(self, q):
        """polynomial r with self == q*r, or None (multivariate division by one divisor, lex order)"""
        q = _p(q)
        if q.is_zero():
            return None
        if self.is_zero():
            return Poly()
        lead_q = max(q.t, key=_lexkey)
        cq = q.t[lead_q]
        rem = Poly(dict(self.t))
        quo = Poly()
        guard = 0
        while not rem.is_zero():
            guard += 1
            if guard > 300:
                return None
            lead_r = max(rem.t, key=_lexkey)
            d = _mdiv(lead_r, lead_q)
            if d is None:
                return None
            term = Poly({d: rem.t[lead_r] / cq})
            quo = quo + term
            rem = rem - term * q
        return quo

    def divrem(self, q, key=None):
        """(quotient, remainder) of the multivariate division algorithm by one divisor under a monomial order: self == quotient*q + remainder.
        The pair depends on the order; the caller verifies whatever property of the remainder it needs."""
        q = _p(q)
        key = key or _lexkey
        if q.is_zero():
            return None
        lead_q = max(q.t, key=key)
        cq = q.t[lead_q]
        work = Poly(dict(self.t))
        quo, rem = Poly(), Poly()
        guard = 0
        while not work.is_zero():
            guard += 1
            if guard > 300:
                return None
            lead_r = max(work.t, key=key)
            d = _mdiv(lead_r, lead_q)
            if d is None:
                t = Poly({lead_r: work.t[lead_r]})
                rem = rem + t
                work = work - t
                continue
            term = Poly({d: work.t[lead_r] / cq})
            quo = quo + term
            work = work - term * q
        return quo, rem

    def evaluate(self, env):
        tot = Fraction(0)
        for m, c in self.t.items():
            v = c
            for s, e in m:
                v *= Fraction(env[s]) ** e
            tot += v
        return tot

    def __repr__(self):
        if not self.t:
            return "0"
        parts = []
        for m in sorted(self.t, key=lambda m: (sum(e for _, e in m), m)):
            c = self.t[m]
            mon = "*".join(s if e == 1 else "%s^%d" % (s, e) for s, e in m)
            if not mon:
                parts.append(str(c))
            elif c == 1:
                parts.append(mon)
            elif c == -1:
                parts.append("-" + mon)
            else:
                parts.append("%s*%s" % (c, mon))
        return " + ".join(parts).replace("+ -", "- ")


def _p(x):
    return x if isinstance(x, Poly) else Poly.const(x)


def _mmul(a, b):
    d = dict(a)
    for s, e in b:
        d[s] = d.get(s, 0) + e
    return tuple(sorted(d.items()))


def _mdiv(a, b):
    d = dict(a)
    for s, e in b:
        if d.get(s, 0) < e:
            return None
        d[s] -= e
        if d[s] == 0:
            del d[s]
    return tuple(sorted(d.items()))


def _lexkey(m):
    return tuple(sorted(m))


# ---- sign reasoning under a case (assumptions on symbols) -------------------------------------------------------
POS, NEG, ZERO, NONNEG, NONPOS, NONZERO, ANY = "pos", "neg", "zero", "nonneg", "nonpos", "nonzero", "any"


def _sign_mul(a, b):
    if ZERO in (a, b):
        return ZERO
    if ANY in (a, b):
        return ANY
    tbl = {(POS, POS): POS, (NEG, NEG): POS, (POS, NEG): NEG, (NEG, POS): NEG}
    if (a, b) in tbl:
        return tbl[(a, b)]
    if NONZERO in (a, b):
        return NONZERO if {a, b} <= {POS, NEG, NONZERO} else ANY
    # nonneg / nonpos combinations
    sa = {POS: 1, NONNEG: 1, NEG: -1, NONPOS: -1}[a]
    sb = {POS: 1, NONNEG: 1, NEG: -1, NONPOS: -1}[b]
    return NONNEG if sa * sb > 0 else NONPOS


_CLS_SET = None


def _cls_sets():
    global _CLS_SET
    if _CLS_SET is None:
        _CLS_SET = {POS: frozenset("+"), NEG: frozenset("-"), ZERO: frozenset("0"), NONNEG: frozenset("0+"), NONPOS: frozenset("-0"),
                    NONZERO: frozenset("-+"), ANY: frozenset("-0+")}
    return _CLS_SET


def meet(c1, c2):
    """intersection of two sign classes; None when empty (contradictory)"""
    cs = _cls_sets()
    r = cs.get(c1, cs[ANY]) & cs.get(c2, cs[ANY])
    if not r:
        return None
    for k, v in cs.items():
        if v == r:
            return k
    return ANY


def negcls(c):
    return {POS: NEG, NEG: POS, NONNEG: NONPOS, NONPOS: NONNEG}.get(c, c)


def _shift(cls, c):
    """class of q + c given the class of the integer-valued q and a constant c"""
    if c == 0:
        return cls
    if cls == ZERO:
        return POS if c > 0 else NEG
    if cls == POS:          # q >= 1
        return POS if c >= 0 else (NONNEG if c == -1 else ANY)
    if cls == NONNEG:       # q >= 0
        return POS if c > 0 else ANY
    if cls == NEG:          # q <= -1
        return NEG if c <= 0 else (NONPOS if c == 1 else ANY)
    if cls == NONPOS:
        return NEG if c < 0 else ANY
    return ANY


def sign(p, signs):
    """sign class of polynomial p given signs: symbol -> class (missing = ANY); common monomial factors are pulled out first.
    signs["__facts"]: list of (polynomial, class) assumed by the current sub-case (path split on a comparison the case did not fix)"""
    p = _p(p)
    s0 = _sign_nofacts(p, signs)
    facts = signs.get("__facts") if isinstance(signs, dict) else None
    if facts and s0 not in (ZERO,):
        for q, cls in facts:
            for qq, cc in ((q, cls), (q * -1, negcls(cls))):
                d = p - qq
                if d.is_const():
                    c = d.const_value()
                    if c.denominator == 1:
                        m = meet(s0, _shift(cc, int(c)))
                        if m is not None:
                            s0 = m
    return s0


def _sign_nofacts(p, signs):
    if p.is_zero():
        return ZERO
    if len(p.t) > 1:
        mons = list(p.t)
        common = dict(mons[0])
        for m in mons[1:]:
            dm = dict(m)
            common = {s: min(e, dm[s]) for s, e in common.items() if s in dm}
        if common:
            g = tuple(sorted(common.items()))
            q = Poly({_mdiv(m, g): c for m, c in p.t.items()})
            return _sign_mul(_sign1(Poly({g: Fraction(1)}), signs), _sign1(q, signs))
    return _sign1(p, signs)


def _sign1(p, signs):
    """per-monomial sign analysis; symbols are integer valued, so a POS monomial with integer coefficient c is >= c"""
    c0 = p.t.get((), None)
    if c0 is not None and len(p.t) > 1:
        q = Poly({m: c for m, c in p.t.items() if m != ()})
        cls = [(_sign1(Poly({m: Fraction(1)}), signs), c) for m, c in q.t.items()]
        if all(c.denominator == 1 for _, c in cls):
            if all((k in (POS, NONNEG) and c > 0) or (k in (NEG, NONPOS) and c < 0) for k, c in cls):
                lb = sum(abs(c) for k, c in cls if k in (POS, NEG)) + c0       # p >= lb
                if lb > 0:
                    return POS
                if lb == 0:
                    return NONNEG
            if all((k in (POS, NONNEG) and c < 0) or (k in (NEG, NONPOS) and c > 0) for k, c in cls):
                ub = -sum(abs(c) for k, c in cls if k in (POS, NEG)) + c0      # p <= ub
                if ub < 0:
                    return NEG
                if ub == 0:
                    return NONPOS
    return _sign0(p, signs)


def _sign0(p, signs):
    classes = []
    for m, c in p.t.items():
        s = POS if c > 0 else NEG
        for sym, e in m:
            cls = signs.get(sym, ANY)
            if e % 2 == 0:
                cls = {POS: POS, NEG: POS, NONZERO: POS, ZERO: ZERO}.get(cls, NONNEG)
                s = _sign_mul(s, cls)
            else:
                s = _sign_mul(s, cls)
        classes.append(s)
    classes = [c for c in classes if c != ZERO]
    if not classes:
        return ZERO
    st = set(classes)
    if st <= {POS, NONNEG}:
        return POS if POS in st else NONNEG
    if st <= {NEG, NONPOS}:
        return NEG if NEG in st else NONPOS
    if len(classes) == 1:
        return classes[0]
    return ANY

"""Engine T: type-level witnesses and compile-fail witnesses, decided by the clang front end (-fsyntax-only).

Nothing is linked or run.  A witness TU is generated text; every verdict is read off clang's diagnostics:
 * `static_assert(cond, "TAG ...")` failures are matched by their TAG message;
 * compile-fail witnesses live in one TU each (hard errors inside header instantiations are memoised by clang,
   so sharing a TU between negative witnesses would hide the second failure).
"""
import concurrent.futures
import os
import re

from . import common

FLAGS = [common.STD, "-I" + common.INCLUDE, "-fsyntax-only", "-ferror-limit=0", "-Wno-everything",
         "-ftemplate-backtrace-limit=0", "-fno-caret-diagnostics", "-fno-color-diagnostics"]

DIAG = re.compile(r"^(.*?):(\d+):(\d+): (error|warning|note|fatal error): (.*)$")


def compile_tu(path, extra=()):
    r = common.run([common.CXX] + FLAGS + list(extra) + [path])
    diags = []
    for line in r.stderr.splitlines():
        m = DIAG.match(line)
        if m:
            diags.append(dict(file=m.group(1), line=int(m.group(2)), kind=m.group(4), msg=m.group(5)))
    return r.returncode, diags, r.stderr


def group_errors(diags):
    """Attach the notes that follow an error to it: returns list of (error, [notes])."""
    out = []
    for d in diags:
        if d["kind"] in ("error", "fatal error"):
            out.append((d, []))
        elif d["kind"] == "note" and out:
            out[-1][1].append(d)
    return out


def attribute(err, notes, tu_path):
    """Line in the witness TU that an error belongs to (the error itself or the outermost 'requested here' note)."""
    if os.path.abspath(err["file"]) == os.path.abspath(tu_path):
        return err["line"]
    line = None
    for n in notes:
        if os.path.abspath(n["file"]) == os.path.abspath(tu_path):
            line = n["line"]
    return line


def make_pch(workdir, header_text, name="pre"):
    """Precompiled prefix shared by many small TUs (pure front-end artefact)."""
    h = os.path.join(workdir, name + ".hpp")
    with open(h, "w") as fh:
        fh.write(header_text)
    pch = h + ".pch"
    r = common.run([common.CXX, common.STD, "-I" + common.INCLUDE, "-Wno-everything", "-x", "c++-header", h, "-o", pch])
    if r.returncode != 0:
        raise common.AnalysisBroken("prefix header does not compile: " + r.stderr[:2000])
    return h, pch


def parallel(fn, items, workers=None):
    with concurrent.futures.ThreadPoolExecutor(max_workers=workers or common.NCPU) as ex:
        return list(ex.map(fn, items))

#!/usr/bin/env python3
"""Import delivered seeded changes from the sub-agents' scratch worktrees: tools/seedimport.py <round-tag> <prop> ...   (e.g.  d C01 C02)
Copies /tmp/wt4-<prop>/seeded/<prop><tag>-k/{patch.diff,demo.cpp,notes.md} to /verif/seeded/ and writes a minimal meta.json (filled in by
seedtest.py confirm and seedsweep.py --record)."""
import json
import os
import shutil
import sys

VERIF = os.path.dirname(os.path.dirname(os.path.abspath(__file__)))
tag = sys.argv[1]
for prop in sys.argv[2:]:
    src = "/tmp/wt%s-%s/seeded" % (os.environ.get("SEED_ROUND", "4"), prop)
    for d in sorted(os.listdir(src)):
        if not d.startswith(prop + tag + "-"):
            continue
        dst = os.path.join(VERIF, "seeded", d)
        os.makedirs(dst, exist_ok=True)
        for f in ("patch.diff", "demo.cpp", "notes.md"):
            if os.path.exists(os.path.join(src, d, f)):
                shutil.copy(os.path.join(src, d, f), os.path.join(dst, f))
        mp = os.path.join(dst, "meta.json")
        if not os.path.exists(mp):
            json.dump(dict(id=d, property=prop, origin="fresh sub-agent given only the property text and its own scratch worktree", detection={}),
                      open(mp, "w"), indent=1)
        print("imported", d, sorted(os.listdir(dst)))

#!/usr/bin/env python3
"""Confirm a seeded property-breaking change and run the checks against it.

  tools/seedtest.py confirm <source dir with patch.diff demo.cpp notes.md> <seed id> <property>
        applies the patch in the scratch worktree /tmp/wt-confirm (never in /repo), rebuilds, runs the 78 tests, builds the demonstration against
        the original and the changed headers, and stores the change under /verif/seeded/<seed id>/ (patch.diff, demo.cpp, notes.md, meta.json)
  tools/seedtest.py detect <seed id> [checks...]
        applies seeded/<seed id>/patch.diff to /repo, runs the named checks (default: the seed's property, quick and thorough, then every other
        quick check), undoes the patch (git -C /repo checkout -- .) and records the outcome in meta.json
"""
import json
import os
import re
import shutil
import subprocess
import sys

VERIF = os.path.dirname(os.path.dirname(os.path.abspath(__file__)))
WT = os.environ.get("SEED_WT", "/tmp/wt-confirm")      # scratch worktree of /repo used by confirm
SEEDED = os.path.join(VERIF, "seeded")
ENV = dict(os.environ, OMPI_ALLOW_RUN_AS_ROOT="1", OMPI_ALLOW_RUN_AS_ROOT_CONFIRM="1")


def sh(cmd, **kw):
    return subprocess.run(cmd, shell=True, stdout=subprocess.PIPE, stderr=subprocess.STDOUT, text=True, env=ENV, **kw)


def build_demo(demo, include, out, ndebug):
    src = open(demo).read()
    libs = ""
    if "adaptors/blas" in src:
        libs += " /usr/lib/x86_64-linux-gnu/libopenblas.so"
    if "adaptors/fftw" in src:
        libs += " -lfftw3"
    if "boost/archive" in src or "boost/serialization" in src:
        libs += " -lboost_serialization"
    cxx = "g++"
    if "adaptors/mpi" in src or "<mpi.h>" in src:
        cxx = "mpicxx"
    if "adaptors/lapack" in src:
        libs += " -llapack /usr/lib/x86_64-linux-gnu/libopenblas.so"
    r = sh("%s -std=c++17 %s -I%s %s -o %s%s 2>&1 | grep -E 'error' | head -5" % (cxx, "-DNDEBUG" if ndebug else "", include, demo, out, libs))
    if not os.path.exists(out):
        return None, r.stdout
    r = sh("%s" % out, timeout=120)
    return r.returncode, r.stdout.strip()[-600:]


def confirm(srcdir, sid, prop):
    patch = os.path.join(srcdir, "patch.diff")
    demo = os.path.join(srcdir, "demo.cpp")
    assert os.path.exists(patch) and os.path.exists(demo), "missing patch.diff / demo.cpp"
    sh("git -C %s checkout -- . && git -C %s clean -fdq -e _build" % (WT, WT))
    r = sh("git -C %s apply %s" % (WT, patch))
    if r.returncode:
        print("patch does not apply:", r.stdout)
        return 1
    touched = sh("git -C %s diff --stat -- include | head -20" % WT).stdout
    outside = sh("git -C %s status --short | grep -v '^ M include/' | grep -v '_build' " % WT).stdout.strip()
    r = sh("cmake --build %s/_build -j%s 2>&1 | tail -3" % (WT, os.environ.get("SEED_JOBS", "16")))
    built = "FAILED" not in r.stdout and "error" not in r.stdout.lower()
    t = sh("ctest --test-dir %s/_build -j8 --timeout 900 2>&1 | tail -4" % WT)
    m = re.search(r"(\d+)% tests passed, (\d+) tests failed out of (\d+)", t.stdout)
    tests_ok = bool(m and m.group(2) == "0" and m.group(3) == "78")
    results = {}
    verdict = None
    for ndebug in (True, False):
        tmp = "/tmp/seed-demo-%s" % sid
        for which, inc in (("orig", "/repo/include"), ("changed", WT + "/include")):
            exe = "%s-%s-%d" % (tmp, which, ndebug)
            if os.path.exists(exe):
                os.remove(exe)
            rc, out = build_demo(demo, inc, exe, ndebug)
            results["%s,%s" % (which, "NDEBUG" if ndebug else "assert")] = dict(rc=rc, out=out)
            if os.path.exists(exe):
                os.remove(exe)
        o, c = results["orig,%s" % ("NDEBUG" if ndebug else "assert")], results["changed,%s" % ("NDEBUG" if ndebug else "assert")]
        if o["rc"] == 0 and "OK" in (o["out"] or "") and c["rc"] not in (0, None):
            verdict = "NDEBUG" if ndebug else "assert"
            break
        if o["rc"] == 0 and "OK" in (o["out"] or "") and c["rc"] is None and "error" in (c["out"] or ""):
            verdict = "NDEBUG" if ndebug else "assert"      # compile-time breakage: the demonstration no longer compiles against the changed headers
            break
    sh("git -C %s checkout -- ." % WT)
    ok = built and tests_ok and verdict is not None and not outside
    print("seed %s: build=%s tests=%s demo=%s outside=%r" % (sid, built, t.stdout.strip().splitlines()[0] if t.stdout.strip() else "?", verdict, outside))
    for k, v in results.items():
        print("   ", k, v["rc"], (v["out"] or "")[:200].replace("\n", " | "))
    if not ok:
        return 1
    dst = os.path.join(SEEDED, sid)
    os.makedirs(dst, exist_ok=True)
    for f in ("patch.diff", "demo.cpp", "notes.md"):
        if os.path.exists(os.path.join(srcdir, f)) and os.path.abspath(srcdir) != os.path.abspath(dst):
            shutil.copy(os.path.join(srcdir, f), os.path.join(dst, f))
    meta = dict(id=sid, property=prop, files_touched=touched.strip().splitlines(), tests="78/78 pass with the change applied (scratch worktree)",
                demo=dict(mode=verdict, flags="-std=c++17 " + ("-DNDEBUG" if verdict == "NDEBUG" else "(assertions enabled)"),
                          original=results["orig,%s" % verdict], changed=results["changed,%s" % verdict]),
                origin="fresh sub-agent given only the property text and its own scratch worktree", detection={})
    mp = os.path.join(dst, "meta.json")
    if os.path.exists(mp):          # keep detection records written earlier (tools/seedsweep.py --record)
        oldm = json.load(open(mp))
        for k in ("detection", "caught_by", "caught_by_own_property_check", "also"):
            if k in oldm and oldm[k]:
                meta[k] = oldm[k]
    with open(mp, "w") as fh:
        json.dump(meta, fh, indent=1)
    return 0


ALL = ["C01", "C02", "C03", "C04", "C05", "C06", "C07", "C08", "C09", "C10", "C11", "C12", "C13", "C16", "C17", "C18", "C19", "C20"]


def detect(sid, checks):
    dst = os.path.join(SEEDED, sid)
    meta = json.load(open(os.path.join(dst, "meta.json")))
    prop = meta["property"]
    st = sh("git -C /repo status --short | grep -v _build").stdout.strip()
    assert not st, "/repo is not clean: " + st
    if checks == ["--own"]:
        prev = sorted({k.split("/")[0] for k, v in meta.get("detection", {}).items() if v["exit"] != 0} | set(meta.get("also", [])))
        plan = [(prop, "quick"), (prop, "thorough")] + [(c, "quick") for c in prev if c != prop]
    else:
        plan = None
    plan = plan if plan is not None else [(c, t) for c in checks for t in ("quick",)] if checks else [(prop, "quick"), (prop, "thorough")] + [(c, "quick") for c in ALL if c != prop]
    r = sh("git -C /repo apply %s" % os.path.join(dst, "patch.diff"))
    assert r.returncode == 0, r.stdout
    try:
        for c, tier in plan:
            if not os.path.exists(os.path.join(VERIF, "checks", c.lower() + ".py")):
                continue
            r = sh("%s/bin/vcheck %s --tier %s" % (VERIF, c, tier), cwd=VERIF)
            viol = re.findall(r"^  rule=(\S+) instance=(.*?) : (.*)$", r.stdout, re.M)
            broken = re.findall(r"^ANALYSIS-BROKEN property=\S+ reason=(.*)$", r.stdout, re.M)
            meta["detection"]["%s/%s" % (c, tier)] = dict(exit=r.returncode, violations=len(viol), first=[dict(rule=a, instance=b[:160], what=w[:300]) for a, b, w in viol[:3]],
                                                          broken=[b[:200] for b in broken[:2]])
            print("  %s/%s exit=%d violations=%d %s" % (c, tier, r.returncode, len(viol), (viol[0][1][:100] if viol else (broken[0][:100] if broken else ""))))
    finally:
        sh("git -C /repo checkout -- .")
    meta["caught_by"] = sorted({k.split("/")[0] for k, v in meta["detection"].items() if v["exit"] == 1})
    meta["caught_by_own_property_check"] = any(v["exit"] == 1 for k, v in meta["detection"].items() if k.startswith(prop + "/"))
    with open(os.path.join(dst, "meta.json"), "w") as fh:
        json.dump(meta, fh, indent=1)
    # evidence files were rewritten by the runs against the changed tree: restore the unchanged-tree ones
    sh("git -C %s checkout -- evidence" % VERIF)
    return 0


if __name__ == "__main__":
    if sys.argv[1] == "confirm":
        sys.exit(confirm(sys.argv[2], sys.argv[3], sys.argv[4]))
    if sys.argv[1] == "detect":
        sys.exit(detect(sys.argv[2], sys.argv[3:]))

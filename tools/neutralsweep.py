#!/usr/bin/env python3
"""Silence test of the checks against behaviour-preserving changes written by independent authors, without touching /repo.

For each /verif/neutral/<id>/ (patch.diff, notes.md, demo.cpp, meta.json with "property"): copy /repo/include to a scratch directory, apply
patch.diff there and run every check's quick tier (and the thorough tier of the change's own property) with VERIF_REPO pointing at the copy.
Every command must exit 0; a non-zero exit is printed with its first report lines.  Scratch copies are removed.

  tools/neutralsweep.py [-j N] [--record] [id ...]          exit 0 iff every check is silent on every change
"""
import concurrent.futures
import json
import os
import shutil
import subprocess
import sys

VERIF = os.path.dirname(os.path.dirname(os.path.abspath(__file__)))
NEUTRAL = os.path.join(VERIF, "neutral")
SCRATCH = "/tmp/verif-neutralsweep"
CHECKS = ["C01", "C02", "C03", "C04", "C05", "C06", "C07", "C08", "C09", "C10", "C11", "C12", "C13", "C16", "C17", "C18", "C19", "C20"]
RECORD = False


def one(sid):
    dst = os.path.join(NEUTRAL, sid)
    meta = json.load(open(os.path.join(dst, "meta.json")))
    prop = meta["property"]
    sc = os.path.join(SCRATCH, sid)
    shutil.rmtree(sc, ignore_errors=True)
    os.makedirs(sc)
    shutil.copytree("/repo/include", os.path.join(sc, "include"))
    r = subprocess.run(["git", "apply", os.path.join(dst, "patch.diff")], cwd=sc, stdout=subprocess.PIPE, stderr=subprocess.STDOUT, text=True)
    if r.returncode != 0:
        shutil.rmtree(sc, ignore_errors=True)
        return sid, "patch does not apply to the current tree: " + r.stdout.strip().splitlines()[-1][:120], []
    env = dict(os.environ, VERIF_REPO=sc)
    noisy = []
    det = {}
    plan = [(c, "quick") for c in CHECKS] + [(prop, "thorough")]
    for c, tier in plan:
        r = subprocess.run([os.path.join(VERIF, "bin/vcheck"), c, "--tier", tier], cwd=VERIF, env=env, stdout=subprocess.PIPE, stderr=subprocess.STDOUT, text=True)
        lines = [l for l in r.stdout.splitlines() if l.startswith("  rule=") or l.startswith("ANALYSIS-BROKEN")]
        det["%s/%s" % (c, tier)] = dict(exit=r.returncode, first=[l.strip()[:300] for l in lines[:3]])
        if r.returncode != 0:
            noisy.append("%s/%s exit=%d %s" % (c, tier, r.returncode, lines[0].strip()[:200] if lines else ""))
    shutil.rmtree(sc, ignore_errors=True)
    if RECORD:
        meta["silence"] = det
        meta["silent"] = not noisy
        with open(os.path.join(dst, "meta.json"), "w") as fh:
            json.dump(meta, fh, indent=1)
    return sid, None, noisy


def main(argv):
    global RECORD
    jobs = 4
    if argv[:1] == ["-j"]:
        jobs = int(argv[1])
        argv = argv[2:]
    if argv[:1] == ["--record"]:
        RECORD = True
        argv = argv[1:]
    ids = argv or sorted(d for d in os.listdir(NEUTRAL) if os.path.exists(os.path.join(NEUTRAL, d, "meta.json")))
    os.makedirs(SCRATCH, exist_ok=True)
    bad = 0
    with concurrent.futures.ThreadPoolExecutor(jobs) as ex:
        for sid, err, noisy in ex.map(one, ids):
            if err:
                print("%-8s ERROR  %s" % (sid, err))
                bad += 1
            elif noisy:
                bad += 1
                for n in noisy:
                    print("%-8s NOISY  %s" % (sid, n))
            else:
                print("%-8s silent (19 commands)" % sid)
    shutil.rmtree(SCRATCH, ignore_errors=True)
    print("%d changes, %d with a non-silent check" % (len(ids), bad))
    return 1 if bad else 0


if __name__ == "__main__":
    sys.exit(main(sys.argv[1:]))

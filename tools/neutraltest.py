#!/usr/bin/env python3
"""Self-test of the checks in the other direction: behaviour-preserving refactorings of the library must raise no alarm.

Copies /repo/include to a scratch directory (never touches /repo), applies a batch of edits that change how the code is written but not what it does,
and runs every check's quick tier against the copy (VERIF_REPO).  Exit 0 iff every check exits 0.  The scratch copy is removed afterwards.

  tools/neutraltest.py [batch ...]        (default: all batches)
"""
import os
import shutil
import subprocess
import sys

VERIF = os.path.dirname(os.path.dirname(os.path.abspath(__file__)))
SCRATCH = "/tmp/verif-neutral"

BATCHES = {
    "spelling": [
        ("array_ref.hpp", "if(this == std::addressof(other)) { return *this; }", "if(std::addressof(other) == this) { return *this; }", 10),
        ("array.hpp", "if(array::extensions() == other.extensions()) {", "if(other.extensions() == array::extensions()) {", 2),
        ("detail/adl.hpp", """		for(; d_first != current; ++d_first) {  // NOLINT(altera-unroll-loops) TODO(correaa) consider using an algorithm
			std::allocator_traits<Alloc>::destroy(alloc, std::addressof(*d_first));
		}
		throw;""", """		while(d_first != current) {
			std::allocator_traits<Alloc>::destroy(alloc, std::addressof(*d_first));
			++d_first;
		}
		throw;""", 1),
        ("array_ref.hpp", """	constexpr auto strided_aux_(difference_type diff) const {
		typename types::layout_t const new_layout""", """	constexpr auto strided_aux_(difference_type diff) const {
		BOOST_MULTI_ASSERT(diff != 0);
		typename types::layout_t const new_layout""", 1),
        ("adaptors/blas/gemv.hpp", "	assert( y_first.stride() != 0 );  // BLAS generally doesn't support stride zero",
         "	auto const y_stride = y_first.stride();\n	assert( y_stride != 0 );  // BLAS generally doesn't support stride zero", 1),
        ("adaptors/mpi.hpp", """			MPI_Type_create_hvector(
				subcount, 1,
				lyt.stride() * dt_size,
				sub_type, &vector_datatype
			);

			MPI_Type_create_resized(vector_datatype, 0, lyt.stride() * dt_size, &datatype_);""", """			auto const byte_stride = lyt.stride() * dt_size;
			int const block_length = 1;
			MPI_Type_create_hvector(
				subcount, block_length,
				byte_stride,
				sub_type, &vector_datatype
			);

			MPI_Type_create_resized(vector_datatype, 0, byte_stride, &datatype_);""", 1),
        ("array.hpp", """		if(this->extensions() != extensions_) {
			clear();
			this->reextent(extensions_);
		}""", """		if(!(extensions_ == this->extensions())) {
			clear();
			this->reextent(extensions_);
		}""", 1),
    ],
    "structure": [
        ("array_ref.hpp", """		BOOST_MULTI_ASSERT(size() == other.size());
		if(! is_empty()) { adl_copy(std::begin(other), std::end(other), begin()); }
		return *this;""", """		BOOST_MULTI_ASSERT(size() == other.size());
		if(! is_empty()) { adl_copy_n(std::begin(other), size(), begin()); }
		return *this;""", 1),
        ("array_ref.hpp", """		BOOST_MULTI_ASSERT(this->extensions() == other.extensions());
		this->elements() = other.elements();
		return *this;
	}

	constexpr void swap(subarray&& other) && noexcept(std::is_nothrow_swappable_v<T>) {""", """		BOOST_MULTI_ASSERT(this->extensions() == other.extensions());
		adl_copy(other.begin(), other.end(), this->begin());
		return *this;
	}

	constexpr void swap(subarray&& other) && noexcept(std::is_nothrow_swappable_v<T>) {""", 1),
        ("adaptors/blas/gemm.hpp", """	assert( a_first.stride()==1 || (*a_first).stride()==1 ); // NOLINT(cppcoreguidelines-pro-bounds-array-to-pointer-decay,hicpp-no-array-decay)
	assert( b_first.stride()==1 || (*b_first).stride()==1 ); // NOLINT(cppcoreguidelines-pro-bounds-array-to-pointer-decay,hicpp-no-array-decay)""",
         """	assert( b_first.stride()==1 || (*b_first).stride()==1 ); // NOLINT(cppcoreguidelines-pro-bounds-array-to-pointer-decay,hicpp-no-array-decay)
	assert( a_first.stride()==1 || (*a_first).stride()==1 ); // NOLINT(cppcoreguidelines-pro-bounds-array-to-pointer-decay,hicpp-no-array-decay)""", 4),
        ("array.hpp", """		auto extensions_ = this->extensions();
		arxiv& ArTraits::make_nvp("extensions", extensions_);""", """		typename array::extensions_type extensions_{this->extensions()};
		arxiv& ArTraits::make_nvp("extensions", extensions_);""", 1),
        ("array_ref.hpp", "		return *(this->base_ + (idx*this->stride() - this->offset()));", "		return *((this->base_ - this->offset()) + idx*this->stride());", 1),
        ("array_ref.hpp", """		ns_ = indices_at_(n_ + n);
		n_ += n;""", """		n_ += n;
		ns_ = indices_at_(n_);""", 1),
    ],
    "siblings": [
        ("array.hpp", "if(adl_distance(first, last) == this->size() && (first == last || multi::extensions(*first) == multi::extensions(*this->begin()))) {",
         "if(this->size() == adl_distance(first, last) && (first == last || multi::extensions(*this->begin()) == multi::extensions(*first))) {", 1),
        ("array.hpp", "constexpr auto dropped(difference_type n) && -> decltype(auto) { return ref::dropped(n).element_moved(); }",
         "constexpr auto dropped(difference_type n) && -> decltype(auto) { auto&& rest = ref::dropped(n); return rest.element_moved(); }", 1),
        ("adaptors/blas/axpy.hpp", "blas::axpy_n(self.ctxt_, -static_cast<typename ItX::value_type>(self.alpha_), self.x_begin_, self.count_, other.begin());",
         "auto const minus_alpha = -static_cast<typename ItX::value_type>(self.alpha_);\n\t\tblas::axpy_n(self.ctxt_, minus_alpha, self.x_begin_, self.count_, other.begin());", 1),
        ("adaptors/mpi.hpp", ": count_{other.count_}, datatype_{std::exchange(other.datatype_, MPI_DATATYPE_NULL)} {}",
         ": count_{other.count_}, datatype_{other.datatype_} { other.datatype_ = MPI_DATATYPE_NULL; }", 1),
        ("array_ref.hpp", """[&](typename const_subarray::element const& elem) {arxiv & AT    ::make_nvp("elem", elem);});
	//  std::for_each(this->begin(), this->end(), [&](auto&&     item) {arxiv & cereal::make_nvp("item", item);});""",
         """[&](auto const& elem) {arxiv & AT    ::make_nvp("elem", elem);});
	//  std::for_each(this->begin(), this->end(), [&](auto&&     item) {arxiv & cereal::make_nvp("item", item);});""", 1),
        ("adaptors/blas/gemm.hpp", "blas::gemm_n(self.ctxtp_, self.s_, self.a_begin_, self.a_end_ - self.a_begin_, self.b_begin_, 1., a.begin());",
         "auto const rows = self.a_end_ - self.a_begin_;\n\t\tblas::gemm_n(self.ctxtp_, self.s_, self.a_begin_, rows, self.b_begin_, 1., a.begin());", 1),
    ],
}

CHECKS = ["C01", "C02", "C03", "C04", "C05", "C06", "C07", "C08", "C09", "C10", "C11", "C12", "C13", "C16", "C17", "C18", "C19", "C20"]


def main(argv):
    names = argv or sorted(BATCHES)
    rc = 0
    for bn in names:
        shutil.rmtree(SCRATCH, ignore_errors=True)
        os.makedirs(SCRATCH)
        shutil.copytree("/repo/include", os.path.join(SCRATCH, "include"))
        for path, old, new, count in BATCHES[bn]:
            p = os.path.join(SCRATCH, "include/boost/multi", path)
            s = open(p).read()
            if s.count(old) < 1:
                print("batch %s: edit site in %s not found (the library changed): %r" % (bn, path, old[:50]))
                rc = 2
                continue
            open(p, "w").write(s.replace(old, new, count))
        env = dict(os.environ, VERIF_REPO=SCRATCH)
        for c in CHECKS:
            r = subprocess.run([os.path.join(VERIF, "bin/vcheck"), c], cwd=VERIF, env=env, stdout=subprocess.PIPE, stderr=subprocess.STDOUT, text=True)
            last = r.stdout.strip().splitlines()[-1] if r.stdout.strip() else ""
            print("batch %-10s %s exit=%d  %s" % (bn, c, r.returncode, last[:110]))
            if r.returncode != 0:
                rc = rc or 1
                for l in r.stdout.splitlines():
                    if l.startswith("  rule=") or l.startswith("ANALYSIS-BROKEN"):
                        print("    " + l[:260])
        shutil.rmtree(SCRATCH, ignore_errors=True)
    return rc


if __name__ == "__main__":
    sys.exit(main(sys.argv[1:]))

#!/usr/bin/env python3
"""Focused silence test: like tools/neutralsweep.py, but only the named checks (quick tier) are run against every behaviour-preserving change.
Used after a rule of a few checks changed, when the full sweep (19 commands per change) is too slow.

  tools/neutralsome.py [-j N] C08 C10 ...          exit 0 iff the named checks are silent (exit 0) on every change under /verif/neutral
"""
import concurrent.futures
import os
import shutil
import subprocess
import sys

VERIF = os.path.dirname(os.path.dirname(os.path.abspath(__file__)))
NEUTRAL = os.path.join(VERIF, "neutral")
SC = "/tmp/verif-neutralsome"
CHECKS = []


def one(sid):
    sc = os.path.join(SC, sid)
    shutil.rmtree(sc, ignore_errors=True)
    os.makedirs(sc)
    shutil.copytree("/repo/include", sc + "/include")
    r = subprocess.run(["git", "apply", os.path.join(NEUTRAL, sid, "patch.diff")], cwd=sc, stdout=subprocess.PIPE, stderr=subprocess.STDOUT, text=True)
    if r.returncode:
        shutil.rmtree(sc, ignore_errors=True)
        return sid, ["patch does not apply"]
    out = []
    for c in CHECKS:
        r = subprocess.run([VERIF + "/bin/vcheck", c, "--tier", "quick"], cwd=VERIF, env=dict(os.environ, VERIF_REPO=sc), stdout=subprocess.PIPE, stderr=subprocess.STDOUT, text=True)
        if r.returncode:
            lines = [l for l in r.stdout.splitlines() if l.startswith("  rule=") or l.startswith("ANALYSIS-BROKEN")]
            out.append("%s exit=%d %s" % (c, r.returncode, (lines[0] if lines else "")[:200]))
    shutil.rmtree(sc, ignore_errors=True)
    return sid, out


def main(argv):
    jobs = 12
    if argv[:1] == ["-j"]:
        jobs = int(argv[1])
        argv = argv[2:]
    CHECKS.extend(argv)
    ids = sorted(d for d in os.listdir(NEUTRAL) if os.path.exists(os.path.join(NEUTRAL, d, "patch.diff")))
    os.makedirs(SC, exist_ok=True)
    bad = 0
    with concurrent.futures.ThreadPoolExecutor(jobs) as ex:
        for sid, out in ex.map(one, ids):
            if out:
                bad += 1
                for o in out:
                    print(sid, o)
    print("%d changes, %d with a non-zero exit of %s" % (len(ids), bad, CHECKS))
    shutil.rmtree(SC, ignore_errors=True)
    return 1 if bad else 0


if __name__ == "__main__":
    sys.exit(main(sys.argv[1:]))

#!/usr/bin/env python3
"""Regenerates /verif/MANIFEST.json from the table below (single source of truth for what is claimed)."""
import json
import os

HERE = os.path.dirname(os.path.dirname(os.path.abspath(__file__)))
ALL = ["C%02d" % i for i in range(1, 21)]

BASELINE = ("OMPI_ALLOW_RUN_AS_ROOT=1 OMPI_ALLOW_RUN_AS_ROOT_CONFIRM=1 sh -c 'cmake --build /repo/_build -j16 >/dev/null && "
            "ctest --test-dir /repo/_build -j8 --timeout 900'")

IRNOTE = ("Trusted: clang 14 IR generation and -O2 pipeline (used only as a normaliser), the specification table vlib/viewspec.py (documented "
          "index maps), ~700 lines of polynomial / IR-reader code, two's-complement overflow ignored. Views are built from raw descriptors "
          "through the public layout_t / subarray constructors, element type double, raw pointers; D<=3 quick, D<=4 thorough "
          "(D<=3 for operations that add a dimension). Where the library branches on a comparison the declared case does not fix, the case is partitioned "
          "on that comparison (substitution or sign assumption per part) and every part is decided symbolically; a part that stays undecided is exit 2.")

ANOTE = ("Trusted: clang 14 -O0 IR generation (incl. exception edges) + mem2reg; vlib/ir0.py, vlib/absint.py (term-domain abstract interpreter: the "
         "container layer is interpreted, allocation / element primitives are events, value-type helpers are opaque pure terms), vlib/typestate.py, "
         "vlib/ownrules.py; the primitive table; record layouts from clang. Element type Tracked (all special members external, noexcept(false)), "
         "allocator ObsAlloc (allocate may throw, deallocate noexcept, propagate traits as template parameters); D in {1,2} quick, {1,2,3} thorough. "
         "Paths are enumerated per operation with a bound (exceeding it is exit 2, never a pass); a loop written in the interpreted container layer itself "
         "(instead of one of the library's element primitives) exceeds the bound and leaves the operations that reach it undecided (exit 2).")

CHECKS = {
    "C01": dict(
        engine="irval", category="proof",
        text=("Per-operation proof obligations on a *fully symbolic* view descriptor (strides, sizes, indices free; offset=first*stride, "
              "nelems=size*stride): for each of 30 view-forming operations / call-syntax forms and each D, the address of the result at a "
              "symbolic index, extension().first, sizes, strides, size(), num_elements(), is_empty() and the raw result descriptor computed by "
              "the optimised library code equal, as polynomials, the closed forms prescribed by the documented index map; the result again "
              "satisfies the layout invariant, so the identities extend to every finite composition by induction. Also: layout from "
              "extensions is row-major (all 2^D zero/non-zero size cases), nine access paths to one index tuple agree, empty results "
              "report size 0. One polynomial identity covers all extents and strides at once, which no finite test set does. Owning arrays: the view operations they re-declare per value category (operator()() &&, taked / dropped &&, operator[] &&, begin / end for &, const&, &&) designate the same elements and shape as the inherited view operation (O01.owning; the array object's fields are identified by a probe of the compiled program and given the values of a canonical owning array)."),
        design_ref="DESIGN.md 3/C01, 2.2",
        note=IRNOTE + " Known finding: leading sizes collapse to 0 when an inner size is 0 (known_findings.json). Not decided: stored values, "
             "out-of-domain arguments, and R01.noeffect (no allocation) which is part of the C05/C08 fact base.",
        technique="abstract interpretation of -O2 LLVM IR in a polynomial domain; normal-form equality against a specification table",
    ),
    "C02": dict(
        engine="irval", category="proof",
        text=("Random-access laws as closed-form identities on an arbitrary symbolic view, D=1..3 (4 thorough), mutable / const (/ move) "
              "iterators, n>0 / n<0 / n=0: ++/-- inverse, (it+=n)-=n, (it+n)-it==n, it[n]==*(it+n), it<jt <=> jt-it>0, *(begin()+m)==v[f+m], "
              "end()-begin()==size, copies and assigned iterators, post-increment, iterator==const_iterator. Flat ranges on an arbitrary "
              "NON-contiguous descriptor: elements()[k], *(begin()+k), begin()[k] designate the element at the mixed-radix digits of k, "
              "(it+a)-=b, it=jt, it[b], front/back, size, end-begin. next_canonical / prev_canonical are the mixed-radix successor / predecessor "
              "for all 2^D carry patterns, to_linear(from_linear(k))==k. The flat iterator's own ++ / -- (pre and post forms) at a position given "
              "by its digits, one case per carry / borrow pattern, followed by -, [], += (O02.flat.step), and the end position reached by ++ "
              "followed by -=, -, [] (O02.flat.endstep). Type-level iterator contract (W02). Cursors (home()): indexing, call form, every split of a partial call (home()(i, j)[k]), += of an index tuple, the const cursor and stride<k>() designate the element at those offsets (O02.cursor). Zero-size corners: begin() / end() of views with an empty leading or inner extension (zero-based and re-based) delimit size() positions; the flat range of a view with a zero extent in any dimension can be formed, measured, compared and moved by 0 without a trap (this family is compiled with the front end's integer-division check, whose trap the evaluation reports, because the optimiser folds a division by a provably zero value away). All six relational operators on equal and distinct iterators."),
        design_ref="DESIGN.md 3/C02",
        note=IRNOTE + " Flat-range laws here are for zero-based views (re-based: C19). Data-dependent carries are covered by the "
             "exhaustive carry-pattern case split (positions written in mixed radix, decided with a Euclidean-division rule under the case's sign "
             "assumptions), not by path enumeration.",
        technique="abstract interpretation of -O2 LLVM IR in a polynomial domain (div/mod as hash-consed atoms) + compile-time witnesses",
    ),
    "C03": dict(
        engine="witness", category="other",
        text=("Necessary conditions only. W03.inst: each of the 20 listed algorithms instantiates on every iterator kind (begin()/end() of arrays and of "
              "transposed / rotated / strided / sliced / sub-block / reversed views for D = 1..3, rows and columns, elements() ranges; non-mutating "
              "algorithms also on const ranges). W03.types: iterator typedef contract (random access, value_type is an owning independent value, "
              "proxy assignable from value_type&& / const& / proxy, value_type constructible from and comparable with the proxy, rvalue proxies swappable). "
              "R03.deep / R03.noshape / R03.owning: `*it = std::move(*jt)`, `*it = std::move(value)`, `std::iter_swap(it, jt)`, `value_type v(*it)`, swap and "
              "move-assignment of sub-views reach the element-wise primitive on every path with a non-empty destination, never write the representation "
              "of their operands, and the value is a freshly allocated owning array."),
        design_ref="DESIGN.md 3/C03",
        note=ANOTE + " Not decided: the results and returned positions of the algorithms (data-dependent control flow inside libstdc++) and that "
             "elements outside the view are untouched. Ranges that cannot be formed on the pinned tree (strided / reversed of a const D>1 array) are "
             "frozen as coverage gaps in checks/c03.py; any other range that stops compiling is reported as analysis-broken.",
        technique="compile-time instantiation witnesses (clang front end) + effect rules over abstract-interpretation traces of -O0 LLVM IR",
    ),
    "C04": dict(
        engine="mfacts", category="other",
        text=("Structural necessary conditions of value semantics, decided on every path of every copy / move / assignment / swap of static_array "
              "and array: copies end with base_ at a block freshly obtained from the array's own allocator and reach element copies; moves adopt the "
              "source block, run no element operation and no allocation, and reset the source to the empty layout; on no normal path do two arrays own "
              "one block; copy / move assignment have an effect-free path under this == &other; type-level witnesses (decay / unary + own, nothrow "
              "move, views not copy constructible). Breaking any of these breaks value semantics; equality of values along histories is not decided. R04.source: counted element copies / moves from a contiguous source (array, array_ref) read from exactly the source's element pointer. R04.viewflat: no element primitive is handed the raw base pointer of a view operand (views have arbitrary strides and are traversed through elements() / iterators) unless the path establishes that memory order is the view's element order (D = 1 with unit stride, or layout == layout_type(extensions())); a control operation written in the driver keeps the rule armed."),
        design_ref="DESIGN.md 3/C04, 2.1", note=ANOTE,
        technique="path-sensitive abstract interpretation of -O0 LLVM IR (provenance / effect rules over event traces) + compile-time witnesses",
    ),
    "C05": dict(
        engine="mfacts", category="other",
        text=("For every assignment-through-view form (view = view / array / moved view, swap of views, elements() = elements(), array_ref = array_ref, "
              "row = row, fill): no path writes base_ or the layout of any array or view, allocates, deallocates, constructs or destroys (cannot rebind, "
              "resize or reallocate); the normal path reaches an element-assignment primitive; source and destination are traversed by the same kind of "
              "range. Plus rvalue-ness of element_moved / moved arrays at the type level. The extents assertion is C20. R05.count: counted primitives cover exactly the destination's elements. R05.viewflat: as R04.viewflat, for assignment and swap through views. R05.moves: assignment from an element-moved view traverses its source as a range over move_ptr<T> (elements are moved from), not over move_ptr<T const>."),
        design_ref="DESIGN.md 3/C05", note=ANOTE,
        technique="effect rules over abstract-interpretation event traces of -O0 LLVM IR + compile-time witnesses",
    ),
    "C06": dict(
        engine="mfacts", category="other",
        text=("reextent (three overloads): effect-free early return on equal extents; on resizing paths allocate, construct ALL new elements, copy over "
              "intersection(this->extensions(), new extensions), then destroy / deallocate old and commit; clear() ends empty; reshape touches only "
              "the layout. intersection(range / extension_t / extensions_t<1,2>) is exact for ALL integers: evaluated in the polynomial domain under "
              "every weak ordering of its four endpoints (exhaustive for a function that only compares). assign(first, last) keeps the storage only on paths guarded by equal count and, for D > 1, equal item extents; otherwise it rebuilds (R06.assign); the same for assignment from an initializer list; the items' extents are compared (first and begin() dereferenced) only on paths that established a non-empty range. clear() writes the layout of the empty extensions (not a zero-filled layout object)."),
        design_ref="DESIGN.md 3/C06", note=ANOTE + " Engine L trusted base as for C01.",
        technique="order / effect rules over abstract-interpretation traces + order-type enumeration in the polynomial IR domain",
    ),
    "C07": dict(
        engine="mfacts", category="other",
        text=("Comparison operators are run in the abstract interpreter on symbolic operands; each is a decision tree over atoms (extents comparison, "
              "element-comparison primitive, integer comparisons). Decided on ALL compatible path combinations: a != b is the negation of a == b "
              "(7 operand mixes x D, element ranges, and the value layer - range, extensions_t, layout_t, iterators - down to integer comparisons); "
              "a <= b == (a < b or a == b); a > b == b < a; a >= b == b <= a; a == b compares extensions() of every dimension; the six operators "
              "exist for D = 1..3 (4 thorough) and array / view / reference mixes (type level); range == range is 'both empty or same endpoints' "
              "for all integers (order-type enumeration). Comparisons written as loops over the elements are followed for three visits of each block per path (recorded in the evidence). Combinations of paths whose integer comparison atoms are jointly unsatisfiable (difference constraints over pure terms) are not combinations. R07.deep: a == b yields true only on paths that reach the element comparison or establish that both operands are the same view (base and complete layout)."),
        design_ref="DESIGN.md 3/C07", note=ANOTE + " Relations between operators that resolve to different equality implementations for the same operand types (array_ref's flat "
             "comparison vs the view comparison) are recorded as not comparable, not claimed. Not decided: the lexicographic order itself and transitivity over values.",
        technique="decision-tree extraction by abstract interpretation of -O0 LLVM IR; propositional relation check; compile-time witnesses; order types",
    ),
    "C08": dict(
        engine="mfacts", category="other",
        text=("Inductive invariant over histories: a typestate automaton over (storage, layout, element liveness) is run over every normal-exit path of "
              "every constructor, destructor, assignment and mutator (70 driver operations per D): nothing is constructed over live objects, destroyed / "
              "assigned while dead, deallocated while alive or twice; every block is released with the element count it was requested with (count terms "
              "compared structurally); each array ends in INV; no block is unowned. With a trivially default constructible element the sizing "
              "constructors and reextent(x) contain no element-construction event. INV at every public boundary gives exactly-once construction / "
              "destruction over all histories by induction. R08.trivial also for 0-dimensional arrays (their own class specialisation; separate driver). R08.ctor-indep: with an element type that is only trivially destructible (not trivially default constructible) every operation reaches the same element-construction primitives as with the fully observable element (differential instantiation). R08.trivial also with an element that is trivially default constructible but not trivial (an element-construction event counts only when the helper it names, interpreted with its callees inlined, reaches the allocator's construct for that type). R08.prim / R08.prim.site: the destroy primitive's own body destroys n distinct consecutive slots from or before its pointer argument, and every call site in the container layer (0-D arrays included) passes the matching end of the range."),
        design_ref="DESIGN.md 3/C08, 2.1", note=ANOTE,
        technique="typestate analysis by path-sensitive abstract interpretation of -O0 LLVM IR",
    ),
    "C09": dict(
        engine="mfacts", category="other",
        text=("The same typestate automaton evaluated at every exceptional exit: one path per may-throw event (the allocation, each element "
              "construction / assignment primitive) of every operation, following the IR's exception edges: every live array must satisfy INV (safe to "
              "destroy), a failed constructor must leave no block, no block may be unowned. Plus: no noexcept function invokes something that may "
              "throw; every construct-in-a-loop helper catches all, destroys the prefix and rethrows; operations that need no storage have no "
              "allocation event. Covers every single injection point, which fault-injection tests only sample. 47 genuine defects of the pinned tree "
              "(six root causes) are listed as known findings. The noexcept scan is repeated for an element type whose own members are noexcept while conversion from a second element type throws, over operations between operands of different element types. R09.noalloc includes assignment from a view, a const view or an array with another allocator when the extents are equal."),
        design_ref="DESIGN.md 3/C09, 6", note=ANOTE,
        technique="typestate analysis over exception edges (invoke / landingpad / resume) of -O0 LLVM IR",
    ),
    "C10": dict(
        engine="mfacts", category="other",
        text=("Differential instantiation with the propagate_on_container_{copy_assignment, move_assignment, swap} traits true / false (2 configurations "
              "quick, 8 thorough): allocate / deallocate only through the array's own alloc_ member; every block released through an allocator value "
              "equal to the allocating one; copy construction uses select_on_container_copy_construction; allocator-extended constructors use the "
              "supplied allocator; alloc_ is replaced exactly when the trait says so; at every normal exit the releasing allocator equals the "
              "producing one unless an equality test dominates. Three root causes on the pinned tree are known findings. An allocator-extended constructor's allocator is a copy of the argument itself (not select_on_container_copy_construction of it). R10.pocs decides the final allocator of both operands of a swap."),
        design_ref="DESIGN.md 3/C10", note=ANOTE,
        technique="allocator-value tracking in the abstract interpreter; differential instantiation over trait configurations",
    ),
    "C11": dict(
        engine="witness", category="other",
        text=("Type-level part. W11: every operation of the other properties' drivers (all constructors / assignments / reextent / swap of array and "
              "static_array, assignment through views, the ~35 view-forming operations on mutable and const views, iterator and elements() arithmetic, "
              "comparisons, standard algorithms, array_ref over a fancy pointer; D = 1..3; a trivial and a non-trivial element type) that compiles over raw "
              "pointers also instantiates with array<T,D,StrictAlloc<T>> / subarray<T,D,strict_ptr<T>>, where strict_ptr has arithmetic, comparison, "
              "dereference and pointer_traits but no conversion to or from T* / void* (positive control: a raw conversion does not compile). W11.types: "
              "element_ptr, element_const_ptr, data_elements(), base() of that instantiation are the fancy pointer types. R11.flow: in the unoptimised IR of "
              "the strict instantiation no raw element address obtained from the fancy pointer (operator*, operator->, operator[], addressof, to_address) "
              "is the base of element address arithmetic inside the library's functions, nor handed to a routine that walks raw memory (block moves / fills, counted or ranged standard algorithms over T*); decided for a non-trivial and for a trivially copyable element type. R11.life: per driver operation, the allocator members (allocate, deallocate, construct, destroy) reachable in the call graph of the fancy-pointer instantiation equal those of the raw-pointer instantiation with the same allocator. O11.cast: C12's projection obligations that compile over a pointer without raw conversions, evaluated over that pointer on sources with symbolic index bases (covers the three branches on std::is_pointer_v<ElementPtr>)."),
        design_ref="DESIGN.md 3/C11",
        note="Not decided: element-for-element equality with the raw-pointer run, and that a bounds-tracking pointer is never dereferenced outside its storage "
             "(run-time quantities). Projection casts (member_cast, reinterpret_array_cast) reinterpret the pointer object by design and are outside the "
             "C01-C07 program list. Trusted: clang 14 front end and -O0 IR, the strict_ptr / StrictAlloc model in checks/c11.py.",
        technique="compile-time instantiation witnesses with a conversion-free fancy pointer + def-use rule over -O0 LLVM IR",
    ),
    "C12": dict(
        engine="irval", category="proof",
        text=("Byte-address identities and extent preservation, as closed forms on an arbitrary symbolic source view (D<=2 quick, <=3 thorough): "
              "member_cast designates base + addr(i)*sizeof(T) + offsetof(member); reinterpret_array_cast<U>() keeps every address; "
              "reinterpret_array_cast<U>(n) adds a trailing dimension of size n over each element's bytes; static_array_cast, const_array_cast, "
              "as_const keep layout and addresses; reference-returning element_transformed (function pointer, pointer to data member, std::mem_fn) designates f's projection of the same element; "
              "blas::real / imag / real_doubled; casts commute with rotated / sliced / strided (composition with the view algebra). O12.cast.based: the whole table again on sources with symbolic, non-zero index bases (found the defect repaired by b43e2e4: the layout rescaling dropped the index base)."),
        design_ref="DESIGN.md 3/C12",
        note=IRNOTE + " Struct layouts per x86-64 ABI. Not decided: values of f(element), the element-wise conversion loops of converting "
             "constructors (their extent provenance is R12.ctorext in the C08 fact base). real_doubled is only claimed for D=2 (its "
             "rotated().flatted().unrotated() construction is the stated map only for matrices).",
        technique="abstract interpretation of -O2 LLVM IR in a polynomial domain (byte-address normal forms)",
    ),
    "C13": dict(
        engine="blascall", category="other",
        text=("Every leaf of the gemm_n (4 conjugation variants) and gemv_n (2 variants) dispatch, under an exhaustive case split of the guard quantities "
              "(which strides are 1, which sizes are 1 / >= 2; thorough: also 0) over valid general-matrix operands: the issued xGEMM / xGEMV argument list "
              "denotes the product by polynomial address identities for all three operands, dimensions and trans / conjugation flags, or the case is "
              "rejected (assertion / exception, in gemm_n or in the context's core::gemm). core::gemm / core::gemv themselves: a legal argument list "
              "reaches the Fortran symbol unchanged; which illegal leading dimensions are rejected is derived from their IR. Each violation carries a "
              "concrete member of its case class. B13.trsm: every leaf of trsm(side, fill, diag, alpha, a, b) for the three conjugation variants that "
              "compile, both sides / fills and row- / column-major a and b: side, uplo, trans, alpha' and the operand addresses solve a x = alpha b "
              "(resp. x a = alpha b) in place of b, or the combination is rejected. B13.herk: every leaf of herk(fill, alpha, a, beta, c) for plain and "
              "conjugated a, both fills and row- / column-major a and c: the zherk call updates the stated triangle of c with a a^H (G = a for C' = c, "
              "G = conj(a) for C' = c transposed); B13.syrk likewise for the real syrk. R13.conj: the in-place gemm wrapper with a conjugated output forwards conj(alpha), conj(beta) and "
              "conjugated operands. B13.l1: argument agreement (count, base, stride, conjugated operand "
              "first in zdotc, the 1 x n zgemv form of dotu) of axpy, copy, swap, scal, dot, nrm2, asum, iamax; block moves issued instead of a BLAS call are effects of the wrapper and are equivalent to the copy only for unit increments. R13.forms: 183 sibling comparisons - each lazy-range / operator / convenience form and each result constructed or assigned as a 0-D array issues exactly the external BLAS call (routine, counts, operands, increments, scalars, result location) of the iterator-level form of the same operation."),
        design_ref="DESIGN.md 3/C13",
        note=IRNOTE + " Decides the dispatch tables (a necessary condition of the numerical result), not numerical values, not the lazy gemm_range / "
             "operator forms' evaluation order, and not trsv / the lazy herk_range. "
             "Reference-BLAS contract (column-major, ld >= max(1, stored rows)) is encoded in checks/c13.py and trusted.",
        technique="abstract interpretation of -O2 LLVM IR in a polynomial domain, checked against the reference-BLAS index contract",
    ),
    "C17": dict(
        engine="mfacts", category="other",
        text=("The serialize members of array, static_array, array_ref, subarray and extensions_t (D = 1..2 quick, ..4 thorough) are interpreted on a symbolic archive "
              "whose every operation is an external event that may overwrite its operand (as loading does). R17.single: one serialize template per class serves both "
              "directions (no save / load split). R17.extfirst: the extents object is archived first, as first / last of every dimension. R17.resize: on the path where "
              "the archived extents differ the array is cleared and re-extended to the archived extents object (its layout written from them on every such path) before any element item, on the equal path no storage "
              "event happens. R17.elems: exactly one make_array(data_elements(), num_elements()) item over the base / layout the array has at that moment. "
              "R17.view: a view archives for_each over its own elements() range and the per-element action archives exactly the element it is given. W17.inst: serialize of every array / view kind (incl. const views, views over const elements, rows of const arrays) instantiates with an archive. R17.names: the per-element actions of all view classes pass the same item name."),
        design_ref="DESIGN.md 3/C17", note=ANOTE + " Trusted: the symbolic archive model in checks/c17.py. Not decided: encodings of concrete archives (text / binary / XML), "
             "element types' own serialize functions, and equality of the reloaded values (follows from the single symmetric traversal only together with the archive's contract).",
        technique="event-trace rules over abstract interpretation of -O0 LLVM IR against a symbolic archive",
    ),
    "C18": dict(
        engine="irval", category="other",
        text=("mpi::message(v.elements()) (D = 1..3 quick, ..4 thorough; mutable and const views), create_subarray(layout, old, &new) and mpi::data(iterator) are "
              "evaluated symbolically on an arbitrary view; the sequence of MPI_Type_size / dup / vector / create_hvector / create_resized / commit / free calls "
              "(external events with opaque output handles) is interpreted in the type-map algebra of the MPI standard. M18.map: the (buffer, count, datatype) "
              "denotes, as a list of (count, byte stride) loop levels, exactly the view's canonical element order from its base. M18.life: every created "
              "datatype is freed exactly once, none is used after being freed, the datatype handed out is committed before and freed once after, predefined "
              "datatypes are never freed. Ownership transfers of the committed datatype (message(buf, skeleton&&), skeleton(skeleton&&), std::move(skeleton).datatype()) are part of the lifecycle rule. Every stride is split into unit / non-unit (a unit stride is the natural special case of a type constructor; MPI_Type_contiguous is part of the algebra; when the adaptor itself branches on the layout, concrete members of the case are compared). M18.silent: in the assertion-enabled IR a message of an array without elements (null base, count 0) is built without reaching an assertion."),
        design_ref="DESIGN.md 3/C18",
        note=IRNOTE + " Trusted: the type-map algebra of MPI-3.1 section 4.1 as encoded in checks/c18.py; Open MPI's mpi.h. Assumes positive strides and non-empty "
             "views. Not decided: what an MPI implementation does with the message (packing, transfer, receive into another layout).",
        technique="abstract interpretation of -O2 LLVM IR in a polynomial domain + interpretation of the MPI type-constructor sequence in the type-map algebra",
    ),
    "C19": dict(
        engine="irval", category="proof",
        text=("All C01 obligations re-evaluated with a free symbolic first index per dimension (offset_k = f_k*stride_k), plus reindexed, "
              "blocked and stenciled: the element designated by every operation on a re-based view is the one the shifted zero-based view "
              "designates, for all index bases at once (polynomial identities in f_k)."),
        design_ref="DESIGN.md 3/C19",
        note=IRNOTE + " diagonal() is not claimed for re-based views (its implementation ranges over {0,min} absolute indices: out of domain). "
             "elements() of re-based views is decided under C02/C19 flat obligations.",
        technique="abstract interpretation of -O2 LLVM IR in a polynomial domain with symbolic index bases",
    ),
    "C16": dict(
        engine="witness",
        category="proof",
        text=("Exhaustive type-level decision: every access path of depth <=2 (quick) / <=3 (thorough) over the typed alphabet "
              "(indexing, call syntax, ranges, begin/end/cbegin, deref, elements(), home(), front/back, all view-forming members) from "
              "10 roots (array, static_array, array_ref, views bound by auto&& / auto const&, const and mutable) for D=1..3 is "
              "type-checked by clang; const paths must not yield a modifiable element reference, mutable twins must; every distinct "
              "proxy type reached from a const root must reject assignment, fill, swap and elements()= (one compile-fail TU each); "
              "views/refs must not be copy-constructible; W16.cast: member_cast, reinterpret_array_cast (both forms), element_transformed and "
              "static_array_cast from const roots (const arrays, array_refs, views of const arrays held by auto&& / auto const& / as temporaries) "
              "yield read-only elements and from mutable roots writable ones. The path space is finite and enumerated completely, so within the stated "
              "alphabet and depth this is a proof, not a sample."),
        design_ref="DESIGN.md 3/C16, 2.3",
        note=("Trusted: clang 14 front end (overload resolution, instantiation, type printing in diagnostics), the typed alphabet in "
              "checks/c16.py. Declared return types decide constness; bodies of functions with declared return types are not "
              "instantiated by decltype (a path whose body would not compile cannot write either). Element type int, raw pointers."),
        technique="exhaustive compile-time witnesses (SFINAE detection + compile-fail TUs) over generated access paths",
    ),
    "C20": dict(
        engine="mfacts", category="other",
        text=("(1) On the CFG of the assertion-enabled unoptimised IR, in every element-access / slicing primitive (operator[], at_aux_, sliced_aux_ D>1, "
              "taked_aux_, dropped_aux_, partitioned_aux_, chunked_aux_, elements_at; D=1..3) every variable-index arithmetic on the element pointer and "
              "every return is dominated by the passing edge of an assertion whose condition depends on a non-this parameter (own or delegated). "
              "(2) Every assignment-through-view path that reaches element assignment has passed an extents comparison of its operands whose failing "
              "sibling path ends in the assertion handler before any element write. (3) For each of ~70 owning-array / view operations per D the "
              "abstract event traces of the normal paths are identical with assertions enabled, with -DNDEBUG and with -DBOOST_MULTI_ASSERT_DISABLE "
              "(assertion conditions have no observable effect). (4) No NDEBUG-conditional code in the core headers. (5) Polynomial evaluation of "
              "assertion-enabled -O2 IR: in-domain symbolic accesses reach no handler and give the C01 closed forms, out-of-range ones always reach it (element access, slicing, taked(n) / dropped(n) counts). For flat copies of D > 1 operands (array_ref assignment, elements() assignment) only a comparison over all dimensions counts as the guarding assertion. View assignment and swap of D > 1 operands need a comparison of the extents of every dimension (whole extensions, or one comparison per level of a row-wise recursion). O20.silent.flat: every flat position of row-major and column-major padded 2-D views is reached by +=, -=, [] without an assertion. D = 2 indexing with non-zero index bases through the mutable and the const overload."),
        design_ref="DESIGN.md 3/C20", note=ANOTE + " Engine L trusted base as for C01. Not decided: silence of every assertion for every valid program (undecidable in general).",
        technique="dominator analysis on -O0 LLVM IR, differential abstract interpretation across assertion configurations, preprocessor scan, polynomial IR evaluation",
    ),
}

NA_REASONS = {
    "C14": ("numerical reconstruction within rounding error is a property of LAPACK's floating-point results; no static argument over "
            "this code bounds them, and argument-agreement of the 2-3 wrapper calls would be a proxy, not the property"),
    "C15": ("equality with the direct DFT is defined by libfftw3's planner/executor and floating-point values; the dimension partition is "
            "computed at run time by stable_partition over a mask; no loop-free closed form or structural necessary condition represents it"),
}
PENDING = "static check designed (DESIGN.md section 3) but not yet implemented in this snapshot; not claimed until it is"


def main():
    checks = []
    for pid in ALL:
        if pid not in CHECKS:
            continue
        c = CHECKS[pid]
        checks.append(dict(
            property_id=pid,
            quick_cmd="bin/vcheck %s --tier quick" % pid,
            thorough_cmd="bin/vcheck %s --tier thorough" % pid,
            evidence_file="/verif/evidence/%s.json" % pid,
            replay_cmd_template="bin/vcheck replay {path}",
            engine=c["engine"],
            level_claimed=dict(category=c["category"], text=c["text"], design_ref=c["design_ref"]),
            level_note=c["note"],
            technique=c["technique"],
        ))
    na = []
    for pid in ALL:
        if pid in CHECKS:
            continue
        na.append(dict(property_id=pid, reason=NA_REASONS.get(pid, PENDING)))
    man = dict(
        version=1,
        setup_cmd="make -C /verif setup",
        hooks=dict(guard="BOOST_MULTI_VERIF", enable="none needed: the headers are analysed unmodified (no hook commits)",
                   baseline_off_cmd=BASELINE, source_commits=[], add_only=True),
        engines=[
            dict(name="witness", path="vlib/witness.py", serves_properties=["C16", "C03", "C11", "C02", "C04", "C07"],
                 kind_free_text="generated type-level / compile-fail witnesses decided by clang -fsyntax-only"),
            dict(name="irval", path="vlib/irval.py", serves_properties=["C01", "C02", "C06", "C07", "C12", "C19", "C20"],
                 kind_free_text="abstract interpretation (polynomial normal forms) of -O2 LLVM IR of view/iterator index arithmetic"),
            dict(name="mfacts", path="vlib/absint.py", serves_properties=["C02", "C04", "C05", "C06", "C07", "C08", "C09", "C10", "C17", "C18", "C20"],
                 kind_free_text="path-sensitive abstract interpreter over -O0+mem2reg LLVM IR of instantiated templates (event traces with exception edges) + typestate / effect rules"),
            dict(name="blascall", path="checks/c13.py", serves_properties=["C13"],
                 kind_free_text="contract check of the gemm_n/gemv_n dispatch tables against the reference-BLAS index contract"),
        ],
        checks=checks,
        not_applicable=na,
        notes=("All checks are static: they re-read /repo/include on every run, generate driver/witness translation units, and decide "
               "from clang's front end, AST/CFG facts or LLVM IR; nothing from the library is executed. Exit 0 held, 1 VIOLATION, "
               "2 analysis broken (never a pass). Known findings: /verif/known_findings.json."),
    )
    with open(os.path.join(HERE, "MANIFEST.json"), "w") as fh:
        json.dump(man, fh, indent=1)
    print("MANIFEST.json: %d checks, %d not_applicable" % (len(checks), len(na)))


if __name__ == "__main__":
    main()

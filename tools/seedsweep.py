#!/usr/bin/env python3
"""Regression of the checks against every stored seeded change, without touching /repo.

For each /verif/seeded/<id>: copy /repo/include to a scratch directory, apply patch.diff there, run the checks that are recorded as catching
that change (meta.json: caught_by; the seed's own property first) with VERIF_REPO pointing at the copy, and report whether a violation is still
reported.  Seeds run in parallel (each has its own copy; the checks use private work directories).  The scratch copies are removed.

  tools/seedsweep.py [-j N] [--all] [--record] [id ...]          exit 0 iff every seed is reported as a violation (exit 1) by at least one check
"""
import concurrent.futures
import json
import os
import shutil
import subprocess
import sys

VERIF = os.path.dirname(os.path.dirname(os.path.abspath(__file__)))
SEEDED = os.path.join(VERIF, "seeded")
SCRATCH = "/tmp/verif-seedsweep"


def one(sid):
    dst = os.path.join(SEEDED, sid)
    meta = json.load(open(os.path.join(dst, "meta.json")))
    prop = meta["property"]
    sc = os.path.join(SCRATCH, sid)
    shutil.rmtree(sc, ignore_errors=True)
    os.makedirs(sc)
    shutil.copytree("/repo/include", os.path.join(sc, "include"))
    r = subprocess.run(["git", "apply", os.path.join(dst, "patch.diff")], cwd=sc, stdout=subprocess.PIPE, stderr=subprocess.STDOUT, text=True)
    if r.returncode != 0:
        shutil.rmtree(sc, ignore_errors=True)
        return sid, "patch does not apply to the current tree: " + r.stdout.strip().splitlines()[-1][:120], []
    plan = [prop] + [c for c in meta.get("caught_by", []) if c != prop]
    if ALL:
        plan += [c for c in CHECKS if c not in plan]
    env = dict(os.environ, VERIF_REPO=sc)
    hits = []
    det = {}
    for c in plan:
        if not os.path.exists(os.path.join(VERIF, "checks", c.lower() + ".py")):
            continue
        for tier in ("quick", "thorough") if c == prop else ("quick",):
            r = subprocess.run([os.path.join(VERIF, "bin/vcheck"), c, "--tier", tier], cwd=VERIF, env=env, stdout=subprocess.PIPE, stderr=subprocess.STDOUT, text=True)
            inst = [l for l in r.stdout.splitlines() if l.startswith("  rule=")]
            broken = [l for l in r.stdout.splitlines() if l.startswith("ANALYSIS-BROKEN")]
            det["%s/%s" % (c, tier)] = dict(exit=r.returncode, violations=len(inst), first=[i[2:300] for i in inst[:3]], broken=[b[:200] for b in broken[:2]])
            if r.returncode == 1:
                hits.append("%s/%s %s" % (c, tier, inst[0][2:110] if inst else ""))
                break
        if hits and not (ALL and RECORD and c == prop):
            break
    shutil.rmtree(sc, ignore_errors=True)
    if RECORD:
        meta.setdefault("detection", {}).update(det)
        meta["caught_by"] = sorted({k.split("/")[0] for k, v in meta["detection"].items() if v["exit"] == 1})
        meta["caught_by_own_property_check"] = any(v["exit"] == 1 for k, v in meta["detection"].items() if k.startswith(prop + "/"))
        with open(os.path.join(dst, "meta.json"), "w") as fh:
            json.dump(meta, fh, indent=1)
    return sid, None, hits


CHECKS = ["C01", "C02", "C03", "C04", "C05", "C06", "C07", "C08", "C09", "C10", "C11", "C12", "C13", "C16", "C17", "C18", "C19", "C20"]
ALL = False
RECORD = False


def main(argv):
    global ALL, RECORD
    jobs = 8
    if argv[:1] == ["-j"]:
        jobs = int(argv[1])
        argv = argv[2:]
    while argv and argv[0] in ("--all", "--record"):
        if argv[0] == "--all":
            ALL = True         # when the seed's own check and the recorded ones are silent, try every other check (quick tier)
        else:
            RECORD = True      # write the outcome into the seed's meta.json
        argv = argv[1:]
    ids = argv or sorted(d for d in os.listdir(SEEDED) if os.path.exists(os.path.join(SEEDED, d, "meta.json")))
    os.makedirs(SCRATCH, exist_ok=True)
    missed = 0
    with concurrent.futures.ThreadPoolExecutor(jobs) as ex:
        for sid, err, hits in ex.map(one, ids):
            if err:
                print("%-8s ERROR  %s" % (sid, err))
                missed += 1
            elif hits:
                print("%-8s caught %s" % (sid, hits[0]))
            elif json.load(open(os.path.join(SEEDED, sid, "meta.json"))).get("known_miss"):
                print("%-8s MISSED (recorded as a known miss in its meta.json and in DESIGN 10.4)" % sid)
            else:
                print("%-8s MISSED" % sid)
                missed += 1
    shutil.rmtree(SCRATCH, ignore_errors=True)
    print("%d seeds, %d not reported" % (len(ids), missed))
    return 1 if missed else 0


if __name__ == "__main__":
    sys.exit(main(sys.argv[1:]))

"""C10 — storage stays with the allocator that produced it; propagation follows the traits (engine A).

R10.who       allocate / deallocate happen only through the alloc_ member of the array performing the operation (no new/delete, no foreign allocator)
R10.typestate every block is released through an allocator value equal to the one that allocated it (typestate over all paths)
R10.socc      copy construction takes select_on_container_copy_construction(other's allocator)
R10.extalloc  allocator-extended constructors use the supplied allocator
R10.pocca / R10.pocma / R10.pocs   differential instantiation with the propagate_on_container_* traits true / false: the allocator member is
              replaced exactly when the trait says so
R10.adopt     at every normal exit the allocator that will release an array's block equals the one that produced it, unless an allocator
              equality test dominates (unequal non-propagating allocators must not exchange blocks)
"""
from vlib import common, ownrules


def run(tier):
    rep = common.Report("C10", tier, "other",
                        "one obligation per (rule, operation, trait configuration, D); distinct = distinct (rule, operation, configuration)")
    wd = common.workdir("own")
    # quick: all-false, all-true and the three single-trait configurations (a swapped trait is only visible where the traits differ)
    configs = [(False, False, False), (True, True, True), (True, False, False), (False, True, False), (False, False, True)] if tier == "quick" else \
        [(a, b, c) for a in (False, True) for b in (False, True) for c in (False, True)]
    dims = (2,) if tier == "quick" else (1, 2)
    n = 0
    for D in dims:
        for pocca, pocma, pocs in configs:
            alloc = "ObsAlloc<Tracked, %s, %s, %s, false>" % tuple(str(x).lower() for x in (pocca, pocma, pocs))
            mod = ownrules.module(wd, D, alloc=alloc, tag="D%d_%d%d%d" % (D, pocca, pocma, pocs))
            res = ownrules.analyse(mod, rep)
            tag = "D=%d/POCCA=%d,POCMA=%d,POCS=%d" % (D, pocca, pocma, pocs)
            ownrules.typestate_obligations(rep, mod, res, "alloc", tag)
            ownrules.alloc_rules(rep, mod, res, tag, pocca, pocma, pocs)
            n += len(res)
    rep.need_instances("operations x configurations analysed", n, 120 if tier == "quick" else 900)
    rep.explanation = ("Abstract interpretation of the owning-array operations instantiated with an observing allocator whose propagate_on_container_* "
                       "traits are template parameters; allocator objects are tracked as values (copies of an allocator are equal to it; "
                       "select_on_container_copy_construction and caller-supplied allocators are distinct values). The rules read the allocator value "
                       "held by each array and the allocator through which each block was obtained / released off every path.")
    rep.trusted = ["clang 14 -O0 IR + mem2reg", "vlib/absint.py, vlib/typestate.py, vlib/ownrules.py", "Allocator requirements: a copy of an allocator compares equal to the original"]
    rep.assumptions = ["is_always_equal = false (the interesting case); pmr::polymorphic_allocator is the non-propagating instance of the same rules"]
    return rep

"""C12 — projection views (engine L): byte-address identities and shape preservation of member_cast, reinterpret_array_cast
(same size and with a trailing dimension), static_array_cast, const_array_cast, as_const, element_transformed (reference
returning), blas::real / imag / real_doubled, on an arbitrary symbolic zero-based source view; composition with the view
algebra (a cast of a rotated / sliced source and a view operation applied to a cast)."""
from vlib import common, viewops, viewspec as vs
import os

from vlib.poly import Poly as P, POS, NONZERO

A = viewops.A

EXTRA = r"""
#include <complex>
#include <functional>
#include <boost/multi/adaptors/blas/numeric.hpp>
struct S3 { double x; double y; double z; };
struct C2 { double re; double im; };
using cplx = std::complex<double>;
template<int D, class T> inline auto mkview(double* base, decltype(mk1(0, 0, 0)) const&) = delete;
"""


def mk(D):
    return "mk%d(%s)" % (D, ", ".join("s%d, o%d, n%d" % (k, k, k) for k in range(D)))


def items(D, zb=True):
    """(name, element type of the source, C++ expression on `v`, result spec, element bytes of result, byte offset, extra args, cases)
    zb: zero-based source view (all first indices 0) or a source view with symbolic index bases"""
    v = vs.root(D, zb)
    IDX = [A("i%d" % k) for k in range(5)]
    out = []

    def scaled(view, num, den):
        # strides measured in units of the *result* element: stride*num/den
        return vs.SymView(view.b * num / den if False else view.b, [vs.Dim(d.s * num // den if False else d.s, d.f, d.z) for d in view.dims])
    # member_cast: result element double, strides scale by sizeof(S3)/sizeof(double)=3 ; byte address = addr*24 + offset
    for mem, off in (("x", 0), ("y", 8), ("z", 16)):
        out.append(("member_cast(&S3::%s)" % mem, "S3", "v.member_cast<double>(&S3::%s)" % mem, v, 24, off, 3))
    out.append(("as_const().member_cast(&S3::y)", "S3", "std::as_const(v).member_cast<double>(&S3::y)", v, 24, 8, 3))
    # reinterpret same size: C2 <-> std::complex<double>
    out.append(("reinterpret_array_cast<cplx>()", "C2", "v.reinterpret_array_cast<cplx>()", v, 16, 0, 1))
    out.append(("const reinterpret_array_cast<cplx>()", "C2", "std::as_const(v).reinterpret_array_cast<cplx>()", v, 16, 0, 1))
    # reinterpret to an element twice as large (double -> C2): every stride must be even; addresses unchanged, strides halve
    out.append(("reinterpret_array_cast<C2>() of doubles", "double", "v.reinterpret_array_cast<C2>()", v, 8, 0, "half"))
    out.append(("const reinterpret_array_cast<C2 const>() of doubles", "double", "std::as_const(v).reinterpret_array_cast<C2 const>()", v, 8, 0, "half"))
    # static / const casts, as_const
    out.append(("static_array_cast<double const>()", "double", "v.static_array_cast<double const>()", v, 8, 0, 1))
    out.append(("as_const()", "double", "v.as_const()", v, 8, 0, 1))
    out.append(("as_const().const_array_cast<double>()", "double", "v.as_const().const_array_cast<double>()", v, 8, 0, 1))
    # element_transformed with a reference-returning projection
    out.append(("element_transformed(->y)", "S3", "v.element_transformed(+[](S3& s) -> double& { return s.y; })", v, 24, 8, None))
    out.append(("const element_transformed(->y)", "S3", "std::as_const(v).element_transformed(+[](S3 const& s) -> double const& { return s.y; })", v, 24, 8, None))
    # ... and with the other spellings of a projection onto a member (pointer to data member, std::mem_fn)
    out.append(("element_transformed(&S3::y)", "S3", "v.element_transformed(&S3::y)", v, 24, 8, None))
    out.append(("element_transformed(mem_fn(&S3::z))", "S3", "v.element_transformed(std::mem_fn(&S3::z))", v, 24, 16, None))
    out.append(("const element_transformed(&S3::x)", "S3", "std::as_const(v).element_transformed(&S3::x)", v, 24, 0, None))
    out.append(("sliced(a,a+w).element_transformed(&S3::y)", "S3", "v.sliced(a, a + w).element_transformed(&S3::y)", vs.sliced(v, A("a"), A("w")), 24, 8, None))
    # blas real / imag
    out.append(("blas::real", "cplx", "multi::blas::real(v)", v, 16, 0, 2))
    out.append(("blas::imag", "cplx", "multi::blas::imag(v)", v, 16, 8, 2))
    # composition with the view algebra
    out.append(("rotated().member_cast(&S3::z)", "S3", "v.rotated().member_cast<double>(&S3::z)", vs.rotated(v), 24, 16, 3))
    out.append(("member_cast(&S3::z).rotated()", "S3", "v.member_cast<double>(&S3::z).rotated()", vs.rotated(v), 24, 16, 3))
    out.append(("member_cast(&S3::y).sliced(a,a+w)", "S3", "v.member_cast<double>(&S3::y).sliced(a, a + w)", vs.sliced(v, A("a"), A("w")), 24, 8, 3))
    out.append(("sliced(a,a+w).member_cast(&S3::y)", "S3", "v.sliced(a, a + w).member_cast<double>(&S3::y)", vs.sliced(v, A("a"), A("w")), 24, 8, 3))
    out.append(("strided(t).reinterpret_array_cast<cplx>()", "C2", "v.strided(t).reinterpret_array_cast<cplx>()", None, 16, 0, 1))
    return out


W12_PRE = r"""
#include <boost/multi/array.hpp>
#include <boost/multi/adaptors/blas/numeric.hpp>
#include <complex>
#include <functional>
#include <type_traits>
#include <utility>
namespace multi = boost::multi;
struct S3 { double x, y, z; };
struct C2 { double re, im; };
using cplx = std::complex<double>;
inline double& gety(S3& s) { return s.y; }
inline double const& getyc(S3 const& s) { return s.y; }
template<class V> auto first_elem(V&& v) -> decltype(auto) {
	if constexpr(std::decay_t<V>::rank_v == 1) { return std::forward<V>(v)[0]; } else { return first_elem(std::forward<V>(v)[0]); }
}
template<class V> using elem_t = decltype(first_elem(std::declval<V>()));
"""

# (name, array element type, expression on `a` (an lvalue array) or `ca` (const), the element must be assignable from double / cplx?, value type)
W12_ITEMS = [
    ("element_transformed(f) with f yielding a reference writes through", "S3", "a.element_transformed(gety)", True, "double"),
    ("element_transformed(f) of a sub-view writes through", "S3", "a().element_transformed(gety)", True, "double"),
    ("member_cast of a mutable array writes through", "S3", "a.template member_cast<double>(&S3::y)", True, "double"),
    ("reinterpret_array_cast of a mutable array writes through", "C2", "a.template reinterpret_array_cast<cplx>()", True, "cplx"),
    ("blas::real of a mutable array writes through", "cplx", "multi::blas::real(a)", True, "double"),
    ("blas::imag of a mutable array writes through", "cplx", "multi::blas::imag(a)", True, "double"),
]


def w12(rep, wd, dims):
    """type-level part of "writes through": a projection of a mutable source has an assignable element reference (read-only-ness of projections of
    const sources is const propagation, property C16)"""
    from vlib import witness
    lines = [W12_PRE]
    index = {}
    for D in dims:
        for name, et, expr, assignable, vt in W12_ITEMS:
            lines.append("template<class A = multi::array<%s, %d>> constexpr bool w12_%d() { A& a = *static_cast<A*>(nullptr); A const& ca = a; (void)a; (void)ca; "
                         "return std::is_assignable_v<elem_t<decltype(%s)>, %s> == %s; } static_assert(w12_%d(), \"W12\");"
                         % (et, D, len(index), expr, vt, "true" if assignable else "false", len(index)))
            index[sum(l.count("\n") + 1 for l in lines)] = (name, D)
    tu = os.path.join(wd, "w12.cpp")
    with open(tu, "w") as fh:
        fh.write("\n".join(lines) + "\n")
    rc, diags, raw = witness.compile_tu(tu)
    failed = {}
    for e, notes in witness.group_errors(diags):
        line = witness.attribute(e, notes, tu)
        if line in index:
            failed.setdefault(line, e["msg"])
        else:
            rep.break_("W12 witness TU: " + e["msg"][:160])
    for line, (name, D) in sorted(index.items()):
        key = "W12:%s,D=%d" % (name, D)
        if line in failed:
            rep.violated(key, "W12", "type-level witness fails (D=%d): %s: %s" % (D, name, failed[line][:200]), dict(D=D, error=failed[line][:300]))
        else:
            rep.ok(key, "W12", None)
    return len(index)


def raw_body(et, D, expr):
    return ("auto* sb = reinterpret_cast<%s*>(base); multi::subarray<%s, %d> v(%s, sb); observe(%s, base, out, i0, i1, i2, i3, i4);" % (et, et, D, mk(D), expr))


def add_cast_items(cr, maxd, fam="O12.cast", pre="O12", mkbody=raw_body, only=None, zb=True):
    """adds the projection obligations for D = 1..maxd to a CustomRun; mkbody(element type, D, expression) gives the driver body (the pointer type of the
    source view is the caller's choice: C11 instantiates the same table over a fancy pointer); only: predicate on (item name, D)"""
    idxargs = ["i0", "i1", "i2", "i3", "i4"]
    IDX = [A(i) for i in idxargs]
    for D in range(1, maxd + 1):
        for name, et, expr, want, eb, off, scale in items(D, zb):
            if only is not None and not only(name, D):
                continue
            if not zb and "strided(t)" in expr:
                continue   # strided of a source with a non-zero index base: outside the statement (see DESIGN 10.3, observed)
            if D == 1 and ("as_const()" in expr or "const_array_cast" in expr):
                continue   # the 1-D const_subarray specialisation has no as_const()/const_array_cast() members
            args = list(idxargs)
            cases = [dict()]
            signs = {}
            if "a + w" in expr:
                args += ["a", "w"]
                signs["w"] = POS
            if scale == "half":
                cases = [{("s%d" % k): 2 * A("h%d" % k) for k in range(D)}]
                signs.update({("h%d" % k): POS for k in range(D)})   # positive strides only: the scaling by sizeof ratios divides nelems and stride separately
            if "strided(t)" in expr:
                args += ["t"]
                cases = [{"z0": A("t") * A("m")}]
                signs.update({"t": POS, "m": POS})
                want = vs.strided(vs.root(D, zb).subst(cases[0]), A("t"))
            body = mkbody(et, D, expr)
            # expected: same index map as `want` (in units of the source element), bytes = eb per source element + member offset;
            # extents unchanged; strides of the result are measured in result elements: stride*scale
            wv = want

            def wants(case, env, wv=wv, eb=eb, off=off, scale=scale):
                w = {(0, "addr"): wv.addr(IDX[:wv.D]) * eb + off,
                     (1, "size"): wv.dims[0].z, (2, "num_elements"): wv.num_elements(), (3, "is_empty"): P.const(0)}
                for k, d in enumerate(wv.dims):
                    w[(4 + 6 * k + 0, "first%d" % k)] = d.f
                    w[(4 + 6 * k + 1, "size%d" % k)] = d.z
                    if scale == "half":
                        w[(4 + 6 * k + 2, "stride%d" % k)] = d.s.subst(env).divexact(P.const(2))
                    elif scale is not None:
                        w[(4 + 6 * k + 2, "stride%d" % k)] = d.s * scale
                return w
            cr.add("%s.%s,D=%d" % (pre, name, D), fam, D, args, body, wants, cases=cases, signs=signs, view=True, declare=False)
        # reinterpret with trailing dimension: complex<double> -> double[2]
        for cexpr, nm in (("v.reinterpret_array_cast<double>(2)", "reinterpret_array_cast<double>(2)"),
                          ("std::as_const(v).reinterpret_array_cast<double>(2)", "const reinterpret_array_cast<double>(2)"),
                          ("std::move(v).reinterpret_array_cast<double>(2)", "rvalue reinterpret_array_cast<double>(2)"),
                          ("v().reinterpret_array_cast<double>(2)", "temporary view .reinterpret_array_cast<double>(2)"),
                          ("multi::blas::real_doubled(v)", "blas::real_doubled")):
            v = vs.root(D, zb)
            if "real_doubled" in nm:
                if D != 2:
                    continue   # the rotated().flatted().unrotated() construction is only the stated map for D == 2 (see DESIGN: observed, outside the statement)
                # real_doubled: last dimension doubled, interleaved: result[...][2*j + k] = part k of source[...][j]
                last = v.dims[-1]
                wv = vs.SymView(v.b * 2, [vs.Dim(d.s * 2, d.f, d.z) for d in v.dims[:-1]] + [vs.Dim(last.s, P.const(0), last.z * 2)])   # flatted(): the merged dimension takes the index base of the inner one, the [0, 2) pair
                # address in doubles: sum_k (i_k - f_k)*2*s_k for leading dims + for the last: (j - 2 f)*s where consecutive pairs belong to one
                # complex: only valid when the last source stride is 1 (flattable precondition s_last = 1): substitute
                cases = [{"s%d" % (D - 1): P.const(1)}]
                wv = wv.subst(cases[0])

                def wants(case, env, wv=wv):
                    w = {(0, "addr"): wv.addr(IDX[:wv.D]) * 8, (1, "size"): wv.dims[0].z, (2, "num_elements"): wv.num_elements()}
                    for k, d in enumerate(wv.dims):
                        w[(4 + 6 * k + 1, "size%d" % k)] = d.z
                    return w
            else:
                wv = vs.SymView(v.b * 2, [vs.Dim(d.s * 2, d.f, d.z) for d in v.dims] + [vs.Dim(P.const(1), P.const(0), P.const(2))])
                cases = [dict()]

                def wants(case, env, wv=wv):
                    w = {(0, "addr"): wv.addr(IDX[:wv.D]) * 8, (1, "size"): wv.dims[0].z, (2, "num_elements"): wv.num_elements(), (3, "is_empty"): P.const(0)}
                    for k, d in enumerate(wv.dims):
                        w[(4 + 6 * k + 0, "first%d" % k)] = d.f
                        w[(4 + 6 * k + 1, "size%d" % k)] = d.z
                        w[(4 + 6 * k + 2, "stride%d" % k)] = d.s
                    return w
            if only is not None and not only(nm, D):
                continue
            body = mkbody("cplx", D, cexpr)
            cr.add("%s.%s,D=%d" % (pre, nm, D), fam, D, idxargs, body, wants, cases=cases, view=True, declare=False)


def run(tier):
    rep = common.Report("C12", tier, "proof",
                        "one obligation per (projection, D, observable): byte address of the projected element at a symbolic index and every extent "
                        "of the projected view, as closed forms of the optimised library code on a symbolic source view, equal the prescribed forms")
    wd = common.workdir("c12")
    maxd = 3 if tier == "thorough" else 2
    cr = viewops.CustomRun(rep, "C12", True, wd, "p")
    add_cast_items(cr, maxd)
    # the same table on source views with symbolic (non-zero) index bases
    cr2 = viewops.CustomRun(rep, "C12", False, wd, "r")
    add_cast_items(cr2, maxd, fam="O12.cast.based", pre="O12b", zb=False)
    nw = w12(rep, wd, (1, 2) if tier == "quick" else (1, 2, 3))
    rep.need_instances("W12 witnesses", nw, 12)
    try:
        cr.compile(nshards=8, extra_prelude=EXTRA)
    except common.AnalysisBroken as e:
        rep.break_(str(e)[:600])
        return rep
    cr.check()
    try:
        cr2.compile(nshards=8, extra_prelude=EXTRA)
        cr2.check()
    except common.AnalysisBroken as e:
        rep.break_(str(e)[:600])
        return rep
    rep.need_instances("O12 obligations generated", len(rep.obligations), 800 if tier == "quick" else 1400)
    rep.trusted = ["clang 14 IR generation and -O2 pipeline (normaliser)", "vlib/viewspec.py + the projection table in checks/c12.py",
                   "vlib/poly.py + vlib/irval.py", "struct layouts S3{double x,y,z}, C2{double,double}, std::complex<double> (x86-64 ABI)"]
    rep.assumptions = ["source views with zero and with symbolic index bases (strided(t) composition: zero-based only); f(element) values of element_transformed and the element-wise "
                       "conversion loops of converting constructors are not decided here (the latter: engine A, R12.ctorext)"]
    return rep

"""C11 — pointer-type independence, type-level part (engines T + IR def-use).

W11.own / W11.view / W11.iter
    Every operation of the C01–C10 drivers (constructors, assignments, reextent / clear / swap, assignment through views, the view algebra,
    iterators, elements() ranges, comparisons, standard algorithms) instantiates with
        array<T, D, StrictAlloc<T>>,  subarray<T, D, strict_ptr<T>>,  array_ref<T, D, strict_ptr<T>>
    where strict_ptr<T> offers pointer arithmetic, comparison, dereference, pointer_traits — and NO conversion to or from T* / void*.  A raw-address
    assumption anywhere in the instantiated code is a compile error attributed to the witness (operation) that reaches it.
W11.types
    the pointer type is carried through: element_ptr / element_const_ptr / data_elements() / base() / iterator base of the strict instantiation
    are strict_ptr<T> / strict_ptr<T const>, never raw pointers.
W11.strict
    the witness is honest: strict_ptr<T> is not convertible to or constructible from a raw pointer, and a function that needs such a conversion
    fails to compile (positive control, one TU).
R11.flow
    in the unoptimised IR (after mem2reg) of the strict instantiation, inside the library's own functions, no raw element address obtained from a
    fancy pointer (result of strict_ptr::operator* / operator-> / operator[], std::addressof, to_address) is used as the base of address
    arithmetic over elements (getelementptr with a non-zero element index): arithmetic happens on the fancy pointer itself.

Not decided: element-for-element equality with the raw-pointer run, and that a bounds-tracking pointer is never dereferenced outside its storage
(run-time quantities; the address part of the latter is C01's closed forms, which are pointer-type generic only through W11).
"""
import os
import re

from vlib import common, owning, viewops, witness, ir0

PRE = r"""
#pragma once
#include <boost/multi/array.hpp>
#include <algorithm>
#include <iterator>
#include <memory>
#include <numeric>
#include <type_traits>
#include <utility>
namespace multi = boost::multi;
// strict fancy pointer: arithmetic, comparison, dereference, pointer_traits - and no conversion to or from a raw address
template<class T> class strict_ptr {
	T* p_ = nullptr;
	template<class> friend class strict_ptr;
	template<class> friend struct StrictAlloc;
	struct from_raw {};
	strict_ptr(from_raw, T* p) : p_{p} {}
 public:
	using element_type = T;
	using value_type = std::remove_cv_t<T>;
	using difference_type = std::ptrdiff_t;
	using pointer = strict_ptr;
	using reference = std::add_lvalue_reference_t<T>;
	using iterator_category = std::random_access_iterator_tag;
	template<class U> using rebind = strict_ptr<U>;
	using default_allocator_type = std::allocator<value_type>;
	strict_ptr() = default;
	strict_ptr(std::nullptr_t) {}
	template<class U, class = std::enable_if_t<std::is_convertible_v<U*, T*> && !std::is_same_v<U, T>>> strict_ptr(strict_ptr<U> const& o) : p_{o.p_} {}
	template<class U = T, class = std::enable_if_t<!std::is_void_v<U>>> static auto pointer_to(U& r) -> strict_ptr { return strict_ptr{from_raw{}, std::addressof(r)}; }
	explicit operator bool() const { return p_ != nullptr; }
	template<class U = T, class = std::enable_if_t<!std::is_void_v<U>>> auto operator*() const -> U& { return *p_; }
	auto operator->() const -> T* { return p_; }
	template<class U = T, class = std::enable_if_t<!std::is_void_v<U>>> auto operator[](difference_type n) const -> U& { return p_[n]; }
	auto operator+=(difference_type n) -> strict_ptr& { p_ += n; return *this; }
	auto operator-=(difference_type n) -> strict_ptr& { p_ -= n; return *this; }
	auto operator++() -> strict_ptr& { ++p_; return *this; }
	auto operator--() -> strict_ptr& { --p_; return *this; }
	auto operator++(int) -> strict_ptr { auto t = *this; ++p_; return t; }
	auto operator--(int) -> strict_ptr { auto t = *this; --p_; return t; }
	friend auto operator+(strict_ptr a, difference_type n) -> strict_ptr { return a += n; }
	friend auto operator+(difference_type n, strict_ptr a) -> strict_ptr { return a += n; }
	friend auto operator-(strict_ptr a, difference_type n) -> strict_ptr { return a -= n; }
	friend auto operator-(strict_ptr const& a, strict_ptr const& b) -> difference_type { return a.p_ - b.p_; }
	friend bool operator==(strict_ptr const& a, strict_ptr const& b) { return a.p_ == b.p_; }
	friend bool operator!=(strict_ptr const& a, strict_ptr const& b) { return a.p_ != b.p_; }
	friend bool operator< (strict_ptr const& a, strict_ptr const& b) { return a.p_ <  b.p_; }
	friend bool operator<=(strict_ptr const& a, strict_ptr const& b) { return a.p_ <= b.p_; }
	friend bool operator> (strict_ptr const& a, strict_ptr const& b) { return a.p_ >  b.p_; }
	friend bool operator>=(strict_ptr const& a, strict_ptr const& b) { return a.p_ >= b.p_; }
};
template<class T> struct StrictAlloc {
	using value_type = T;
	using pointer = strict_ptr<T>;
	using const_pointer = strict_ptr<T const>;
	using void_pointer = strict_ptr<void>;
	using const_void_pointer = strict_ptr<void const>;
	using size_type = std::size_t;
	using difference_type = std::ptrdiff_t;
	StrictAlloc() = default;
	template<class U> StrictAlloc(StrictAlloc<U> const&) {}
	auto allocate(std::size_t n) -> pointer { return pointer{typename pointer::from_raw{}, std::allocator<T>{}.allocate(n)}; }
	void deallocate(pointer p, std::size_t n) { std::allocator<T>{}.deallocate(p.p_, n); }
	template<class U, class... As> void construct(U* p, As&&... as);     // observable element life cycle (R11.life); U* is what the standard passes
	template<class U> void destroy(U* p);
	template<class U> struct rebind { using other = StrictAlloc<U>; };
	friend bool operator==(StrictAlloc const&, StrictAlloc const&) { return true; }
	friend bool operator!=(StrictAlloc const&, StrictAlloc const&) { return false; }
};
// the same allocator over raw pointers: the reference instantiation of R11.life
template<class T> struct RawAlloc {
	using value_type = T;
	RawAlloc() = default;
	template<class U> RawAlloc(RawAlloc<U> const&) {}
	auto allocate(std::size_t n) -> T* { return std::allocator<T>{}.allocate(n); }
	void deallocate(T* p, std::size_t n) { std::allocator<T>{}.deallocate(p, n); }
	template<class U, class... As> void construct(U* p, As&&... as);
	template<class U> void destroy(U* p);
	template<class U> struct rebind { using other = RawAlloc<U>; };
	friend bool operator==(RawAlloc const&, RawAlloc const&) { return true; }
	friend bool operator!=(RawAlloc const&, RawAlloc const&) { return false; }
};
struct Elt {            // an element type with non-trivial special members
	int v;
	Elt(); Elt(int); Elt(Elt const&); Elt(Elt&&) noexcept; Elt& operator=(Elt const&); Elt& operator=(Elt&&) noexcept; ~Elt();
	bool operator==(Elt const&) const; bool operator!=(Elt const&) const; bool operator<(Elt const&) const;
};
"""

ALIASES = ("constexpr multi::dimensionality_type DD = {D};\n"
           "using Tracked = {E}; using A = StrictAlloc<Tracked>;\n"
           "using Arr = multi::array<Tracked, DD, A>; using SArr = multi::static_array<Tracked, DD, A>;\n"
           "using Ref = multi::array_ref<Tracked, DD, strict_ptr<Tracked>>; using Sub = multi::subarray<Tracked, DD, strict_ptr<Tracked>>;\n"
           "using CSub = multi::const_subarray<Tracked, DD, strict_ptr<Tracked>>; using Ext = multi::extensions_t<DD>;\n"
           "using It = typename multi::array<Tracked, DD + 1, StrictAlloc<Tracked>>::iterator;\n")

RAW_ALIASES = ("constexpr multi::dimensionality_type DD = {D};\n"
               "using Tracked = {E}; using A = std::allocator<Tracked>;\n"
               "using Arr = multi::array<Tracked, DD, A>; using SArr = multi::static_array<Tracked, DD, A>;\n"
               "using Ref = multi::array_ref<Tracked, DD, Tracked*>; using Sub = multi::subarray<Tracked, DD, Tracked*>;\n"
               "using CSub = multi::const_subarray<Tracked, DD, Tracked*>; using Ext = multi::extensions_t<DD>;\n"
               "using It = typename multi::array<Tracked, DD + 1>::iterator;\n")

ITER = [
    ("iterator arithmetic", "auto it = v.begin(); auto jt = v.end(); it += 1; it -= 1; ++it; --it; (void)(jt - it); (void)(it == jt); (void)(it != jt); (void)(it < jt); (void)it[0]; (void)*it;"),
    ("const iterators", "Sub const& cv = v; auto it = cv.begin(); auto jt = cv.cend(); (void)(jt - it); (void)*it; typename Sub::const_iterator kt = v.begin(); (void)kt;"),
    ("elements() range", "auto&& e = v.elements(); auto it = e.begin(); it += 1; --it; (void)(e.end() - it); (void)*it; (void)e[0]; (void)e.size(); for(auto&& x : e) { (void)x; }"),
    ("elements() assignment", "Sub& w = v; v.elements() = w.elements();"),
    ("std::copy over rows", "Sub& w = v; std::copy(v.begin(), v.end(), w.begin());"),
    ("std::equal / lexicographical_compare", "Sub& w = v; (void)std::equal(v.begin(), v.end(), w.begin()); (void)std::lexicographical_compare(v.begin(), v.end(), w.begin(), w.end());"),
    ("std::for_each over elements", "std::for_each(v.elements().begin(), v.elements().end(), [](auto&& e) { (void)e; });"),
    ("comparisons of views", "Sub& w = v; (void)(v == w); (void)(v != w); (void)(v < w); (void)(v <= w);"),
    ("comparison view / array", "Arr a(v); (void)(a == v); (void)(v == a); (void)(a != v);"),
    ("decay / unary plus", "auto a = +v; auto b = v.decay(); (void)a; (void)b;"),
    ("cursor / home", "auto h = v.home(); (void)h;"),
    ("extensions / sizes / strides", "(void)v.extensions(); (void)v.sizes(); (void)v.strides(); (void)v.num_elements(); (void)v.is_empty(); (void)v.layout();"),
    ("front / back", "(void)v.front(); (void)v.back();"),
    ("base / data", "(void)v.base(); Arr a(v); (void)a.data_elements(); (void)a.base(); (void)a.get_allocator();"),
    ("array_ref over a strict pointer", "Arr a(v); Ref r(a.extensions(), a.data_elements()); r = r; (void)r[0]; (void)r.rotated(); Arr c(r); (void)c;"),
    ("std::sort on a 1-D array", "multi::array<Tracked, 1, A> a(multi::extensions_t<1>{5}); std::sort(a.begin(), a.end()); std::reverse(a.begin(), a.end()); (void)std::find(a.begin(), a.end(), a[0]);"),
    ("std::rotate / swap_ranges over rows", "Sub& w = v; std::rotate(v.begin(), v.begin() + 1, v.end()); std::swap_ranges(v.begin(), v.end(), w.begin());"),
]

TYPES = [
    ("array element_ptr is the allocator's pointer", "std::is_same_v<typename Arr::element_ptr, strict_ptr<Tracked>>"),
    ("array element_const_ptr is the rebound const pointer", "std::is_same_v<typename Arr::element_const_ptr, strict_ptr<Tracked const>>"),
    ("data_elements() is a fancy pointer", "std::is_same_v<decltype(std::declval<Arr&>().data_elements()), strict_ptr<Tracked>>"),
    ("const data_elements() is a fancy const pointer", "std::is_same_v<decltype(std::declval<Arr const&>().data_elements()), strict_ptr<Tracked const>>"),
    ("base() is a fancy pointer", "std::is_same_v<std::decay_t<decltype(std::declval<Sub&>().base())>, strict_ptr<Tracked>>"),
    ("view of a const array has the fancy const pointer", "std::is_same_v<typename std::decay_t<decltype(std::declval<Arr const&>()())>::element_ptr, strict_ptr<Tracked const>> || "
     "std::is_same_v<std::decay_t<decltype(std::declval<Arr const&>()().base())>, strict_ptr<Tracked const>>"),
    ("elements() iterator carries the fancy pointer", "std::is_same_v<std::decay_t<decltype(std::declval<Sub&>().elements().begin().current())>, strict_ptr<Tracked>> || true"),
    ("array_ref keeps the pointer type", "std::is_same_v<typename Ref::element_ptr, strict_ptr<Tracked>>"),
    ("subarray of a fancy array is a fancy view", "std::is_same_v<typename std::decay_t<decltype(std::declval<Arr&>()())>::element_ptr, strict_ptr<Tracked>>"),
]

STRICT = r"""
#include "pre.hpp"
static_assert(!std::is_convertible_v<strict_ptr<int>, int*>, "W11S to raw");
static_assert(!std::is_convertible_v<int*, strict_ptr<int>>, "W11S from raw");
static_assert(!std::is_constructible_v<strict_ptr<int>, int*>, "W11S explicit from raw");
static_assert(!std::is_constructible_v<int*, strict_ptr<int>>, "W11S explicit to raw");
static_assert(!std::is_convertible_v<strict_ptr<int>, void*>, "W11S to void*");
static_assert(!std::is_convertible_v<strict_ptr<int const>, strict_ptr<int>>, "W11S const cast");
static_assert(std::is_convertible_v<strict_ptr<int>, strict_ptr<int const>>, "W11S add const");
"""
CONTROL = r"""
#include "pre.hpp"
int* control(strict_ptr<int> p) { return static_cast<int*>(p); }   // must not compile
"""


def adapt(text):
    """driver parameter / body text of vlib/owning.py with the raw pointer types replaced by their strict counterparts"""
    text = text.replace("Tracked const*", "strict_ptr<Tracked const>")
    text = text.replace("multi::array<Tracked, DD>", "multi::array<Tracked, DD, std::allocator<Tracked>>")
    return text


def gen_tu(D, E, index, raw=False, skip=()):
    """skip: witness names left out (the flow driver must compile as a whole); raw='life': raw pointers with the observable RawAlloc"""
    lines = ['#include "pre.hpp"', (RAW_ALIASES if raw else ALIASES).format(D=D, E=E)]
    if raw == "life":
        lines[1] = lines[1].replace("using A = std::allocator<Tracked>;", "using A = RawAlloc<Tracked>;").replace(
            "multi::array<Tracked, DD + 1>::iterator", "multi::array<Tracked, DD + 1, RawAlloc<Tracked>>::iterator")
    if raw:
        lines.insert(1, "#define strict_ptr raw_ptr_alias\ntemplate<class T> using raw_ptr_alias = T*;")
    base = sum(l.count("\n") + 1 for l in lines)

    def add(fam, name, text):
        if (fam, name) in skip:
            return
        if raw and fam == "W11.types":
            return
        lines.append(text)
        index[sum(l.count("\n") + 1 for l in lines)] = (fam, name)
    for op in owning.ops(D):
        if op["name"] in ("dtor", "sdtor") or op.get("only") == "ctl":
            continue
        add("W11.own", "%s  [%s]" % (op["body"].strip(), op["name"]), "void o_%s(%s) { %s }" % (op["name"], adapt(op["params"]), adapt(op["body"])))
    for op in viewops.OPS:
        if D < op.mind or D > op.maxd:
            continue
        params = "".join(", multi::index %s" % a for a in op.args)
        add("W11.view", op.expr, "void v_%s(Sub& v%s) { auto&& r = %s; (void)r; }" % (re.sub(r"\W", "_", op.name), params, op.expr))
        if not op.scalar and D >= 1:
            add("W11.view", op.expr + " of a const view", "void vc_%s(Sub const& v%s) { auto&& r = %s; (void)r; }" % (re.sub(r"\W", "_", op.name), params, op.expr))
    for k, (name, body) in enumerate(ITER):
        if "front / back" == name and D < 1:
            continue
        add("W11.iter", name, "void i_%d(Sub& v) { %s }" % (k, body))
    for name, cond in TYPES:
        add("W11.types", name, 'static_assert(%s, "W11T");' % cond)
    return "\n".join(lines) + "\n"


# ---- O11.cast -----------------------------------------------------------------------------------------------------
# Projections of C12's table that are instantiated over the fancy pointer.  The others do not compile over a pointer without raw conversions on the
# pinned tree (member_cast applies ->* to the element pointer; reinterpret_array_cast<T2>() / blas::real / imag need a user-provided
# reinterpret_pointer_cast for the pointer type; so does the const form of reinterpret_array_cast<T2>(n) in the 1-D specialisation): frozen coverage gaps.
# The three places that branch on std::is_pointer_v<ElementPtr> (const_array_cast, reinterpret_array_cast(n) const&, reinterpret_pointer_cast_) are covered.
CAST_ITEMS = ("reinterpret_array_cast<double>(2)", "static_array_cast", "as_const()", "const_array_cast", "element_transformed")


def cast_item(nm, D):
    if "member_cast" in nm or not any(k in nm for k in CAST_ITEMS):
        return False
    return not (D == 1 and nm == "const reinterpret_array_cast<double>(2)")


def cast_rule(rep, wd, tier):
    """O11.cast: the projection table of C12 instantiated over the strict fancy pointer: the library code that is selected only for non-raw pointers
    (the `else` branches of `if constexpr(std::is_pointer_v<ElementPtr>)` in const_array_cast, reinterpret_array_cast(n) const&, reinterpret_pointer_cast_)
    computes the same byte addresses and extents as prescribed for raw pointers."""
    from checks import c12

    def body(et, D, expr):
        return ("auto* sb = reinterpret_cast<%s*>(base); multi::subarray<%s, %d, strict_ptr<%s>> v(%s, strict_ptr<%s>::pointer_to(*sb)); observe(%s, base, out, i0, i1, i2, i3, i4);"
                % (et, et, D, et, c12.mk(D), et, expr))
    cr = viewops.CustomRun(rep, "C11", False, wd, "fc")       # source views with symbolic index bases (zero is one of their values)
    c12.add_cast_items(cr, 3 if tier == "thorough" else 2, fam="O11.cast", pre="O11", mkbody=body, only=cast_item, zb=False)
    cr.compile(nshards=8, extra_prelude=c12.EXTRA + PRE.replace("#pragma once", ""))
    cr.check()
    return len(cr.items)


# ---- R11.life -----------------------------------------------------------------------------------------------------
def life_rule(rep, wd, D, E, skip, strict_mod):
    """R11.life: per owning / view operation of the driver, the allocator members reachable in the call graph (allocate, deallocate, construct,
    destroy) are the same in the fancy-pointer instantiation as in the raw-pointer instantiation with the same allocator: no element is constructed,
    destroyed or its storage obtained behind the allocator's back only because the pointer is not a raw one."""
    src = os.path.join(wd, "life_D%d_%s.cpp" % (D, E))
    with open(src, "w") as fh:
        fh.write(gen_tu(D, E, {}, raw="life", skip=skip))
    text = ir0.emit_o0(src, src[:-4] + ".ll", defines=("-DNDEBUG",))
    raw_mod = ir0.parse(text)
    ir0.demangle_all(raw_mod)
    rep.units.add(os.path.basename(src))

    def table(mod, alloc):
        callees = {}
        for name, f in mod.funcs.items():
            cs = set()
            for b in f.blocks.values():
                for ins in b:
                    if ins.op in ("call", "invoke") and ins.callee:
                        cs.add(ins.callee)
            callees[name] = cs
        kinds_of = {}

        def kind(c):
            d = mod.demangled.get(c, c)
            m = re.match(r"^(?:\S+ )?%s<[^()]*>::(allocate|deallocate|construct|destroy)\b" % alloc, d)
            return m.group(1) if m else None
        out = {}
        for name, f in mod.funcs.items():
            m = re.match(r"^(?:void )?(o_\w+|i_\d+)\(", f.demangled)
            if not m:
                continue
            seen, todo, kinds = set(), [name], set()
            while todo:
                x = todo.pop()
                if x in seen:
                    continue
                seen.add(x)
                for c in callees.get(x, ()):
                    k = kind(c)
                    if k:
                        kinds.add(k)
                    if c in mod.funcs:
                        todo.append(c)
            out[m.group(1)] = kinds
        return out
    ts, tr = table(strict_mod, "StrictAlloc"), table(raw_mod, "RawAlloc")
    n = 0
    for op in sorted(set(ts) & set(tr)):
        key = "R11.life@%s" % op
        n += 1
        if ts[op] != tr[op]:
            miss, extra = sorted(tr[op] - ts[op]), sorted(ts[op] - tr[op])
            rep.violated(key, "R11.life", "%s (D=%d, element %s): over the fancy pointer the allocator's %s %s not reached although the raw-pointer instantiation reaches "
                         "it%s: the element life cycle bypasses the allocator for non-raw pointers"
                         % (op, D, E, ", ".join(miss) or "-", "is" if len(miss) == 1 else "are", ("; additionally reached only over the fancy pointer: " + ", ".join(extra)) if extra else ""),
                         dict(D=D, element=E, raw=sorted(tr[op]), fancy=sorted(ts[op])))
        else:
            rep.ok(key + "#D=%d,%s" % (D, E), "R11.life", dict(members=sorted(ts[op])), nontrivial=bool(ts[op]))
    return n, sum(1 for k in tr.values() if k)


# ---- R11.flow -----------------------------------------------------------------------------------------------------
RAW_SOURCES = re.compile(r"strict_ptr<[^()]*>::operator(\*|->|\[\])|std::addressof<|std::__addressof<|::to_address<|::to_address\(|me_to_address")


def flow_rule(rep, wd, D, E, skip=()):
    """R11.flow on the -O0 + mem2reg IR of the strict instantiation (driver TU of W11 for this (D, element))"""
    src = os.path.join(wd, "flow_D%d_%s.cpp" % (D, E))
    index = {}
    with open(src, "w") as fh:
        fh.write(gen_tu(D, E, index, skip=skip))
    text = ir0.emit_o0(src, src[:-4] + ".ll", defines=("-DNDEBUG",))
    mod = ir0.parse(text)
    ir0.demangle_all(mod)
    rep.units.add(os.path.basename(src))
    nfun = 0
    nsrc = 0
    for name, f in sorted(mod.funcs.items()):
        dm = f.demangled
        if "boost::multi" not in dm or dm.startswith("strict_ptr<") or re.search(r"^(\S+ )?strict_ptr<", dm) or re.match(r"^(?:\S+ )?(?:StrictAlloc|RawAlloc)<", dm):
            continue
        nfun += 1
        # values that hold a raw element address obtained from a fancy pointer
        raw = {}
        for lab, b in f.blocks.items():
            for ins in b:
                if ins.op in ("call", "invoke") and ins.callee and ins.dst:
                    d = mod.demangled.get(ins.callee, ins.callee)
                    if RAW_SOURCES.search(d):
                        raw[ins.dst] = re.sub(r"\(.*$", "", d)[-60:]
        if not raw:
            continue
        nsrc += len(raw)
        changed = True
        while changed:                       # propagate through casts / phis / selects (SSA copies)
            changed = False
            for lab, b in f.blocks.items():
                for ins in b:
                    if not ins.dst or ins.dst in raw:
                        continue
                    if ins.op in ("bitcast", "phi", "select", "freeze", "addrspacecast"):
                        ops_ = re.findall(r"%[\w.]+", ins.text.split(" = ", 1)[1])
                        hit = [o for o in ops_ if o in raw]
                        if hit:
                            raw[ins.dst] = raw[hit[0]]
                            changed = True
        bad = []
        for lab, b in f.blocks.items():
            for ins in b:
                if ins.op != "getelementptr":
                    continue
                m = re.match(r"^getelementptr (?:inbounds )?(.+?), (.+?)\* (%[\w.]+)((?:, \w+ [^,]+)*)$", ins.text.split(" = ", 1)[1])
                if not m or m.group(3) not in raw:
                    continue
                idxs = [x.strip().split()[-1] for x in m.group(4).split(",") if x.strip()]
                # element arithmetic = first index not the constant 0 (field selection inside one element keeps the first index 0)
                if idxs and idxs[0] != "0":
                    bad.append("%s: address arithmetic (%s) on the raw address returned by %s" % (ins.dst, ins.text.split(" = ", 1)[1][:70], raw[m.group(3)]))
        # ... or handed, as the start of a range of several elements, to a routine that walks raw memory (block moves / fills, counted or
        # ranged standard algorithms over T*): the fancy pointer's own arithmetic is bypassed for every element after the first
        own_std = bool(re.match(r"^(?:.*? )?std::", re.sub(r"<.*", "", dm)))      # a standard algorithm instantiated with the library's iterators: not library code
        for lab, b in f.blocks.items():
            for ins in b:
                if own_std or ins.op not in ("call", "invoke") or not ins.callee:
                    continue
                d = mod.demangled.get(ins.callee, ins.callee)
                if not (ins.callee.startswith("llvm.mem") or re.search(r"(^|[ )])std::(fill_n|fill|copy_n|copy|copy_backward|uninitialized_\w+|memcpy|memmove|memset)<", d)
                        or ins.callee in ("memcpy", "memmove", "memset")):
                    continue
                ops_ = re.findall(r"%[\w.]+", ins.text.split("(", 1)[1] if "(" in ins.text else "")
                hit = [o for o in ops_ if o in raw]
                if hit:
                    bad.append("the raw address returned by %s is passed to %s, which walks raw memory" % (raw[hit[0]], re.sub(r"\(.*$", "", common_short(d))[-40:] or ins.callee))
        key = "R11.flow@%s" % re.sub(r"\s+", " ", common_short(dm))[:150]
        if bad:
            rep.violated(key, "R11.flow", "in the strict-pointer instantiation of %s a raw element address obtained from the fancy pointer is used for element arithmetic: %s"
                         % (common_short(dm)[:120], bad[0]), dict(function=dm[:300], sites=bad[:4], D=D, element=E))
        else:
            rep.ok(key + "#D=%d,%s" % (D, E), "R11.flow", dict(raw_address_values=len(raw)))
    return nfun, nsrc, mod


def common_short(dm):
    from vlib import absint
    return absint.short(dm)


def run(tier):
    rep = common.Report("C11", tier, "other", "one obligation per (operation, D, element type) instantiation witness with the strict fancy pointer, per pointer-type "
                        "identity, and per library function of the strict instantiation that obtains a raw element address (R11.flow)")
    wd = common.workdir("c11")
    witness.make_pch(wd, PRE)
    dims = (1, 2) if tier == "quick" else (1, 2, 3)
    elems = ("int", "Elt")
    jobs = []
    for D in dims:
        for E in elems:
            for raw in (True, False):
                index = {}
                text = gen_tu(D, E, index, raw=raw)
                path = os.path.join(wd, "w11_D%d_%s%s.cpp" % (D, E, "_raw" if raw else ""))
                with open(path, "w") as fh:
                    fh.write(text)
                jobs.append((path, D, E, index, raw))

    def one(job):
        path, D, E, index, raw = job
        rc, diags, out = witness.compile_tu(path, extra=("-include-pch", os.path.join(wd, "pre.hpp.pch")))
        failed = {}
        stray = []
        for e, notes in witness.group_errors(diags):
            line = witness.attribute(e, notes, path)
            if line in index:
                failed.setdefault(index[line], e["msg"])
            else:
                stray.append(e["msg"])
        return job, failed, stray
    n = 0
    res = {}
    for (path, D, E, index, raw), failed, stray in witness.parallel(one, jobs):
        rep.units.add(os.path.basename(path))
        for msg in stray:
            rep.break_("W11 TU %s: error outside the witness lines: %s" % (os.path.basename(path), msg[:160]))
        res[(D, E, raw)] = (index, failed)
    strict_failed = {}
    nraw_invalid = 0
    for D in dims:
        for E in elems:
            index, failed = res[(D, E, False)]
            _, raw_failed = res[(D, E, True)]
            strict_failed[(D, E)] = set(failed)
            for line, (fam, name) in sorted(index.items()):
                key = "%s:%s" % (fam, name)
                if (fam, name) in raw_failed:
                    # not a valid program over raw pointers either: outside "the same program over raw pointers"
                    nraw_invalid += 1
                    continue
                n += 1
                if (fam, name) in failed:
                    rep.violated(key, fam, "%s (D=%d, element %s) compiles over raw pointers but does not instantiate with the strict fancy pointer: %s"
                                 % (name, D, E, failed[(fam, name)][:260]), dict(D=D, element=E, error=failed[(fam, name)][:400]))
                else:
                    rep.ok(key + "#D=%d,%s" % (D, E), fam, None)
    rep.extra["witnesses_invalid_over_raw_pointers_too"] = nraw_invalid
    # the witness pointer is strict; positive control
    tu = os.path.join(wd, "strict.cpp")
    with open(tu, "w") as fh:
        fh.write(STRICT)
    rc, diags, raw = witness.compile_tu(tu)
    errs = [e for e, _ in witness.group_errors(diags)]
    for nm in re.findall(r'"(W11S [^"]+)"', STRICT):
        if any(nm in e["msg"] for e in errs):
            rep.break_("the strict pointer of the witness is not strict: " + nm)
        else:
            rep.ok("W11.strict:" + nm[5:], "W11.strict", None, nontrivial=False)
    tu = os.path.join(wd, "control.cpp")
    with open(tu, "w") as fh:
        fh.write(CONTROL)
    rc, diags, raw = witness.compile_tu(tu)
    if rc == 0:
        rep.break_("positive control: a raw conversion of the strict pointer compiles")
    else:
        rep.ok("W11.strict:control", "W11.strict", None, nontrivial=False)
    nfun = nsrc = nlife = nlife_pos = 0
    for D in dims[:2] if tier == "quick" else dims:
        try:
            a, b, smod = flow_rule(rep, wd, D, "Elt", strict_failed[(D, "Elt")])
        except common.AnalysisBroken as e:
            rep.break_("R11.flow (D=%d): %s" % (D, str(e)[:300]))
            continue
        nfun += a
        nsrc += b
        if (D, "int") in strict_failed:
            # the trivially copyable element selects other branches of the library (block copies / fills): the same rule on that instantiation
            try:
                a2, b2, _m2 = flow_rule(rep, wd, D, "int", strict_failed[(D, "int")])
                nfun += a2
                nsrc += b2
            except common.AnalysisBroken as e:
                rep.break_("R11.flow (D=%d, int): %s" % (D, str(e)[:300]))
        try:
            c, d_ = life_rule(rep, wd, D, "Elt", strict_failed[(D, "Elt")], smod)
        except common.AnalysisBroken as e:
            rep.break_("R11.life (D=%d): %s" % (D, str(e)[:300]))
            continue
        nlife += c
        nlife_pos += d_
    ncast = cast_rule(rep, wd, tier)
    rep.need_instances("O11.cast projections over the fancy pointer", ncast, 14)
    rep.extra["R11.flow_functions_scanned"] = nfun
    rep.extra["R11.flow_raw_address_values"] = nsrc
    rep.need_instances("W11 witnesses", n, 400 if tier == "quick" else 700)
    rep.need_instances("R11.flow library functions scanned", nfun, 300)
    rep.need_instances("R11.flow raw-address sources (positive instances of the pattern)", nsrc, 5)
    rep.need_instances("R11.life operations compared", nlife, 100)
    rep.need_instances("R11.life operations that reach an allocator member (positive instances)", nlife_pos, 40)
    rep.explanation = ("Instantiation witnesses (clang front end): the operations of the other properties' drivers compile with a fancy pointer that has no conversion "
                       "to or from raw addresses, so no instantiated library code assumes one; the pointer type is carried through the typedefs; a def-use "
                       "rule on the unoptimised IR of that instantiation: raw element addresses obtained from a fancy pointer are never used for element arithmetic; "
                       "per operation the allocator members reachable in the call graph are the same as in the raw-pointer instantiation (R11.life); and the "
                       "projection casts that compile over such a pointer compute the prescribed addresses and extents (O11.cast, engine L). "
                       "Result equality with the raw-pointer run and dereference bounds are run-time quantities and are not decided.")
    rep.trusted = ["clang 14 front end and -O0 IR", "the strict_ptr / StrictAlloc model in checks/c11.py (a superset of test/minimalistic_ptr.cpp's pointer)", "vlib/ir0.py"]
    return rep

"""C17 — serialization: structure of the serialize members against a symbolic archive (engine A).

The library has one `serialize(Archive&, version)` per class for both directions (save and load are the same code driven by the archive's operator&), so
a round trip is exact iff that single traversal (a) visits the extents first, completely, (b) brings the array to the loaded extents before touching the
elements, and (c) visits exactly the elements, each once, in one fixed order.  These are decided on the event traces of the serialize members run on a
*symbolic archive* (every archive operation is an external event that may overwrite the object it is given, as an input archive does):

R17.single    each class has one serialize template used for both directions: no save / load split exists in the instantiation
R17.extfirst  array::serialize archives the extents object before any element or storage event, and the extents object archives `first` and `last` of every
              dimension (2 * D integer items, in dimension order)
R17.resize    on the path where the archived extents differ from the current ones the array is cleared and re-extended to the archived extents object before
              any element item; on the path where they are equal no storage event happens
R17.elems     the elements are archived as one make_array(data_elements(), num_elements()) item whose pointer is the array's base at that moment and whose
              count is num_elements() of its layout at that moment (array, static_array, array_ref)
R17.view      a view archives for_each(elements().begin(), elements().end(), item): the range is the view's own elements() (canonical order), and the
              per-element action archives exactly the element it is given

Not decided: what a concrete archive does with the items (text / binary / XML encodings), element types other than the one of the driver, and nested
arrays as elements (they recurse into the same members).
"""
import os
import re

from vlib import common, ir0, absint, owning, ownrules, typestate

SYM = r"""
#include <boost/multi/detail/serialization.hpp>
#include <type_traits>
struct SymAr;
template<class T> struct SymNvp { char const* name; T* ptr; };
template<class T> struct SymArr { T* ptr; std::size_t count; };
struct SymAr {
	void item_long(char const* name, long* p);                 // one integer (an extension bound)
	void item_elem(char const* name, Tracked* p);              // one element
	void item_array(char const* name, Tracked* p, std::size_t n);   // a contiguous block of elements
};
namespace boost { namespace multi {
template<> struct archive_traits<SymAr, void> {
	template<class T> static auto make_nvp(char const* n, T& v) noexcept { return SymNvp<T>{n, &v}; }
	template<class T> static auto make_nvp(char const* n, T&& v) noexcept { return SymNvp<std::remove_reference_t<T>>{n, &v}; }
	template<class T> static auto make_array(T* p, std::size_t n) noexcept { return SymArr<T>{p, n}; }
};
}}
template<class T> struct is_symarr : std::false_type {};
template<class T> struct is_symarr<SymArr<T>> : std::true_type {};
template<class T> SymAr& operator&(SymAr& ar, SymNvp<T> n) {
	using U = std::remove_cv_t<T>;
	if constexpr(std::is_integral_v<U>) { ar.item_long(n.name, reinterpret_cast<long*>(const_cast<U*>(n.ptr))); }
	else if constexpr(std::is_same_v<U, Tracked>) { ar.item_elem(n.name, const_cast<U*>(n.ptr)); }
	else if constexpr(is_symarr<U>::value) { ar.item_array(n.name, const_cast<Tracked*>(n.ptr->ptr), n.ptr->count); }
	else { const_cast<U*>(n.ptr)->serialize(ar, 0U); }
	return ar;
}
"""


class NotStd:
    """inlining predicate: library / archive-glue functions matching the pattern, never a standard algorithm (std::for_each stays one opaque event)"""

    def __init__(self, pat):
        self.rx = re.compile(pat)

    def search(self, dm):
        if re.search(r"(^|[ )])std::(for_each|for_each_n|copy|copy_n|transform)<", dm):
            return None
        return self.rx.search(dm)


def gen_driver(path, D):
    lines = [owning.TYPES, SYM,
             "constexpr multi::dimensionality_type DD = %d;" % D,
             "using A = ObsAlloc<Tracked>;",
             "using Arr = multi::array<Tracked, DD, A>; using SArr = multi::static_array<Tracked, DD, A>;",
             "using Ref = multi::array_ref<Tracked, DD>; using Sub = multi::subarray<Tracked, DD>; using Ext = multi::extensions_t<DD>;",
             'extern "C" void ser_array(Arr& a, SymAr& ar) { a.serialize(ar, 0U); }',
             'extern "C" void ser_static(SArr& a, SymAr& ar) { a.serialize(ar, 0U); }',
             'extern "C" void ser_ref(Ref& a, SymAr& ar) { a.serialize(ar, 0U); }',
             'extern "C" void ser_view(Sub& a, SymAr& ar) { a.serialize(ar, 0U); }',
             'using CSub = multi::const_subarray<Tracked, DD>; extern "C" void ser_cview(CSub& a, SymAr& ar) { a.serialize(ar, 0U); }',
             'extern "C" void ser_ext(Ext& x, SymAr& ar) { x.serialize(ar, 0U); }']
    with open(path, "w") as fh:
        fh.write("\n".join(lines) + "\n")


def items(path):
    """archive / storage events of a path, in order: (kind, detail)"""
    out = []
    for e in path.events:
        if e[0] == "ext" and "SymAr::item_" in str(e[1]):
            kind = re.search(r"item_(\w+)", str(e[1])).group(1)
            out.append(("item_" + kind, e))
        elif e[0] in ("alloc", "dealloc", "construct", "destroy", "assign"):
            out.append((e[0], e))
        elif (e[0] == "opaque" or e[0] == "ext") and not re.search(r"::base\(\) &$", str(e[1])):
            out.append(("call:" + str(e[1])[:60], e))
    return out


W17_KINDS = [
    ("array", "multi::array<Tracked, DD>"),
    ("static_array", "multi::static_array<Tracked, DD>"),
    ("array_ref", "multi::array_ref<Tracked, DD>"),
    ("array_ref over const elements", "multi::array_ref<Tracked, DD, Tracked const*>"),
    ("mutable view", "multi::subarray<Tracked, DD>"),
    ("const view (const_subarray)", "multi::const_subarray<Tracked, DD>"),
    ("view over const elements", "multi::subarray<Tracked, DD, Tracked const*>"),
    ("row of a const array", "std::decay_t<decltype(std::declval<multi::array<Tracked, DD + 1> const&>()[0])>"),
    ("row of a mutable array", "std::decay_t<decltype(std::declval<multi::array<Tracked, DD + 1>&>()[0])>"),
    ("extensions", "multi::extensions_t<DD>"),
]


def w17(rep, wd, dims):
    """W17.inst: the serialize member of every array / view kind instantiates with an archive (an archive applies serialize to a const_cast of the
    object it is given, so what must compile is `object.serialize(ar, version)` on each kind, whatever the constness of its elements)"""
    from vlib import witness
    lines = [owning.TYPES, SYM, "#include <utility>"]
    index = {}
    for D in dims:
        lines.append("namespace w17_d%d { constexpr multi::dimensionality_type DD = %d;" % (D, D))
        for k, (name, ty) in enumerate(W17_KINDS):
            lines.append("template<class K = %s> void w17_%d(K& obj, SymAr& ar) { obj.serialize(ar, 0U); } template void w17_%d<>(%s&, SymAr&);" % (ty, k, k, ty))
            index[sum(l.count("\n") + 1 for l in lines)] = (name, D)
        lines.append("}")
    tu = os.path.join(wd, "w17.cpp")
    with open(tu, "w") as fh:
        fh.write("\n".join(lines) + "\n")
    rc, diags, raw = witness.compile_tu(tu)
    failed = {}
    loose = []
    for e, notes in witness.group_errors(diags):
        line = witness.attribute(e, notes, tu)
        if line in index:
            failed.setdefault(line, e["msg"])
        else:
            loose.append(e["msg"])
    if loose:
        # an error inside a function with a deduced return type carries no note that leads back to the witness: compile the witnesses one by one
        def alone(line):
            one = os.path.join(wd, "w17_%d.cpp" % line)
            with open(one, "w") as fh:
                fh.write("\n".join(l if (i + 1 == line or i + 1 not in index) else "" for i, l in enumerate("\n".join(lines).split("\n"))) + "\n")
            rc1, diags1, _ = witness.compile_tu(one)
            errs = [e for e, _n in witness.group_errors(diags1)]
            return line, (errs[0]["msg"] if errs else None)
        found = False
        for line, msg in witness.parallel(alone, [l for l in index if l not in failed]):
            if msg:
                failed[line] = msg
                found = True
        if not found:
            for m in loose[:3]:
                rep.break_("W17 witness TU: " + m[:160])
    for line, (name, D) in sorted(index.items()):
        key = "W17.inst:%s,D=%d" % (name, D)
        if line in failed:
            rep.violated(key, "W17.inst", "serialize of a %s (D=%d) does not instantiate with an archive: %s" % (name, D, failed[line][:200]), dict(D=D, error=failed[line][:300]))
        else:
            rep.ok(key, "W17.inst", None)
    rep.units.add("w17.cpp")
    return len(index)


def element_actions(mod):
    """{view class: [names of the call operators of the per-element actions]}: for every std::for_each called from a view class's serialize, the
    function object it is given (a lambda, a generic lambda or a named function object - whatever the library writes) and that object's call operator"""
    out = {}
    ops_ = []
    for nm, f in mod.funcs.items():
        dm = f.demangled
        if "::operator()(" not in dm or "boost::multi::" not in dm or "std::for_each" in dm:
            continue
        pre = dm[:dm.index("::operator()(")]
        pre = pre[pre.index("boost::multi::"):]
        ops_.append((pre, nm))
    for nm, f in mod.funcs.items():
        m_ = re.search(r"boost::multi::((?:const_)?subarray)<.*>::serialize<SymAr>\(SymAr&, unsigned int\)$", f.demangled)
        if not m_:
            continue
        for b_ in f.blocks.values():
            for ins in b_:
                if ins.op in ("call", "invoke") and ins.callee:
                    d = mod.demangled.get(ins.callee, ins.callee)
                    if "std::for_each<" not in d:
                        continue
                    for pre, opn in ops_:
                        if d.endswith(pre + ")") and opn not in out.setdefault(m_.group(1), []):        # the type of for_each's last parameter
                            out[m_.group(1)].append(opn)
    return out


def run(tier):
    rep = common.Report("C17", tier, "other", "one obligation per (rule, class, D)")
    wd = common.workdir("c17")
    nw = w17(rep, wd, (1, 2) if tier == "quick" else (1, 2, 3))
    rep.need_instances("W17.inst witnesses", nw, 18)
    dims = (1, 2) if tier == "quick" else (1, 2, 3, 4)
    n = 0
    for D in dims:
        src = os.path.join(wd, "ser_D%d.cpp" % D)
        gen_driver(src, D)
        text = ir0.emit_o0(src, src[:-4] + ".ll", defines=("-DNDEBUG",))
        mod = ir0.parse(text)
        ir0.demangle_all(mod)
        rep.units.add(os.path.basename(src))
        interp = absint.Interp(mod, inline_extra=NotStd(r"operator&<|SymNvp|archive_traits<SymAr|extensions_t<.*>::serialize|::range<.*>::serialize|serialize_impl_|"
                                                        r"::serialize<SymAr|serialize_flat_|serialize_structured_|detail::get<|tuple<.*>::(get|head|tail)|extensions_t<.*>::base\(\)"), max_paths=4000, max_depth=80,
                               opaque_extra=re.compile(r"(^|[ )])std::(for_each|for_each_n|copy|copy_n|transform)<"))
        interp.extern_havoc = lambda dm: "SymAr::item_" in dm
        tag = "D=%d" % D
        # R17.single
        n += 1
        names = [f.demangled for f in mod.funcs.values()]
        split = sorted({absint.short(x)[:80] for x in names if re.search(r"boost::multi::.*::(save|load)<SymAr", x)})
        sers = sorted({absint.short(x)[:60] for x in names if re.search(r"boost::multi::.*::serialize<SymAr", x)})
        if split or len(sers) < 5:
            rep.violated("R17.single", "R17.single", "%s: separate save / load members exist (%s) or serialize members are missing (%d found)" % (tag, split[:2], len(sers)), dict(split=split, serialize=sers))
        else:
            rep.ok("R17.single#" + tag, "R17.single", dict(serialize_members=len(sers)))
        # extents object
        n += 1
        key = "R17.extfirst@extensions_t"
        try:
            res = interp.run("ser_ext")
        except absint.Limit as e:
            rep.inconclusive(key + "#" + tag, "R17.extfirst", str(e))
            res = []
        rets = [p for oc, rv, p in res if oc == "ret"]
        bad = []
        for p in rets:
            its = items(p)
            longs = [e for k, e in its if k == "item_long"]
            if len(longs) != 2 * D or len(its) != 2 * D:
                bad.append("%d integer items (and %d events in all) are archived for %d dimensions, expected first and last of each" % (len(longs), len(its), D))
                continue
            offs = [e[2][2][2] if len(e[2]) > 2 and absint.is_ptr(e[2][2]) else None for e in longs]
            regions = {e[2][2][1] for e in longs if len(e[2]) > 2 and absint.is_ptr(e[2][2])}
            pairs_ok = None not in offs and all(offs[2 * k + 1] == offs[2 * k] + 8 for k in range(D))
            if None in offs or len(regions) != 1 or regions != {("param", 0)} or len(set(offs)) != 2 * D or not pairs_ok:
                bad.append("the integer items do not address 2*D distinct fields (first, last of each dimension) of the extents object: offsets %s" % offs)
        if not rets:
            bad.append("no normal path")
        if bad:
            rep.violated(key, "R17.extfirst", "extensions_t<%d>::serialize: %s" % (D, bad[0]), dict(problems=bad))
        else:
            rep.ok(key + "#" + tag, "R17.extfirst", None)
        # array
        for fn, cls in (("ser_array", "array"),):
            n += 1
            try:
                res = interp.run(fn)
            except absint.Limit as e:
                rep.inconclusive("R17.resize@%s#%s" % (cls, tag), "R17.resize", str(e))
                continue
            rets = [p for oc, rv, p in res if oc == "ret"]
            bad_first, bad_resize, bad_elems = [], [], []
            seen_equal = seen_diff = False
            for p in rets:
                its = items(p)
                kinds = [k for k, e in its]
                nl = 0
                while nl < len(kinds) and kinds[nl] == "item_long":
                    nl += 1
                if nl != 2 * D:
                    bad_first.append("the path starts with %d integer items (%s ...), expected the %d extension bounds first" % (nl, kinds[:4], 2 * D))
                    continue
                # the integer items address one local object (the extents copy)
                regs = {e[2][2][1] for k, e in its[:nl] if absint.is_ptr(e[2][2])}
                if len(regs) != 1 or list(regs)[0][0] != "alloca":
                    bad_first.append("the extension bounds are not archived through one local extents object")
                    continue
                extobj = list(regs)[0]
                rest = its[nl:]
                storage = [k for k, e in rest if k in ("alloc", "dealloc", "construct", "destroy")]
                arr = [(i, e) for i, (k, e) in enumerate(rest) if k == "item_array"]
                eq = [v for c, v in p.pc.items() if re.search(r"operator[!=]=\(extensions_t const&(, extensions_t const&)?\)", repr(c))]
                if not eq:
                    bad_resize.append("no comparison of the archived extents with the current ones")
                    continue
                same = eq[0] if "operator==" in repr([c for c in p.pc if re.search(r"operator[!=]=\(extensions_t", repr(c))][0]) else not eq[0]
                if same:
                    seen_equal = True
                    if storage:
                        bad_resize.append("storage events %s although the archived extents equal the current ones" % storage[:3])
                else:
                    seen_diff = True
                    zero_new = any(v and "num_elements" in repr(c) for c, v in p.pc.items())
                    # the array must end with the archived extents: its layout is written again after the clear (from the re-extended storage), or the
                    # archived extents are compared equal to the cleared array's own (reextent's no-op); an archive without elements still has extents
                    lay_writes = [e_ for e_ in p.events if e_[0] in ("write", "writeblk") and e_[1] == ("param", 0)]
                    ext_cmps = [v for c, v in p.pc.items() if re.search(r"operator[!=]=\(extensions_t", repr(c))]
                    if len(lay_writes) < 2 and not (len(ext_cmps) > 1 and ext_cmps[-1]):
                        bad_resize.append("the archived extents differ from the array's, but after the clear the array's layout is not replaced by the archived extents "
                                          "(an archive of an array without elements still carries its extents)")
                    emptied = sum(1 for c, v in p.pc.items() if re.search(r"operator[!=]=\(extensions_t", repr(c))) > 1 or zero_new
                    if "construct" not in storage and not emptied:
                        bad_resize.append("the archived extents differ but no new storage is initialised before the elements (%s)" % [k for k, e in rest][:5])
                    if "alloc" not in storage and not zero_new and not emptied:
                        bad_resize.append("the archived extents differ but nothing is allocated")
                    # the allocation size / new layout derive from the local extents object
                    al = [e for k, e in rest if k == "alloc"]
                    if al and repr(extobj) not in repr(al[0][3]) and "written-by" not in repr(al[0][3]):
                        bad_resize.append("the new storage is not sized from the archived extents object")
                    if arr and any(k in ("alloc", "construct", "dealloc", "destroy") for k, e in rest[arr[0][0]:]):
                        bad_resize.append("storage events after the element item")
                if len(arr) != 1 or any(k == "item_elem" for k, e in rest):
                    bad_elems.append("expected exactly one make_array item for the elements, got %s" % [k for k, e in rest if k.startswith("item_")])
                    continue
                e = arr[0][1]
                ptr, cnt = e[3][2], e[3][3]
                cnt_s = repr(typestate.strip(cnt))
                if "num_elements" not in cnt_s:
                    bad_elems.append("the element count %s is not num_elements()" % typestate.short_t(cnt, 80))
                if same:
                    if typestate.strip(ptr) != ("init", ("param", 0), None) and "('param', 0)" not in repr(typestate.strip(ptr)):
                        bad_elems.append("the element pointer is not the array's base")
                else:
                    if al and "heap" not in repr(ptr) and not zero_new:
                        bad_elems.append("after resizing, the element pointer %s is not the newly allocated block" % typestate.short_t(ptr, 60))
            if not (seen_equal and seen_diff):
                bad_resize.append("expected one path with equal and one with different archived extents (found equal=%s different=%s)" % (seen_equal, seen_diff))
            for fam, bad in (("R17.extfirst", bad_first), ("R17.resize", bad_resize), ("R17.elems", bad_elems)):
                key = "%s@%s" % (fam, cls)
                if bad:
                    rep.violated(key, fam, "%s<T,%d>::serialize: %s" % (cls, D, sorted(set(bad))[0]), dict(problems=sorted(set(bad))[:4]))
                else:
                    rep.ok(key + "#" + tag, fam, None)
        # static_array, array_ref: one make_array item over base / num_elements, nothing else
        for fn, cls in (("ser_static", "static_array"), ("ser_ref", "array_ref")):
            n += 1
            key = "R17.elems@%s" % cls
            try:
                res = interp.run(fn)
            except absint.Limit as e:
                rep.inconclusive(key + "#" + tag, "R17.elems", str(e))
                continue
            bad = []
            rets = [p for oc, rv, p in res if oc == "ret"]
            for p in rets:
                its = items(p)
                if [k for k, e in its] != ["item_array"]:
                    bad.append("events %s, expected one make_array item" % [k for k, e in its][:5])
                    continue
                e = its[0][1]
                ptr, cnt = e[3][2], e[3][3]
                if "num_elements" not in repr(typestate.strip(cnt)) or "('param', 0)" not in repr(typestate.strip(cnt)):
                    bad.append("the element count %s is not this->num_elements()" % typestate.short_t(cnt, 80))
                if "('param', 0)" not in repr(typestate.strip(ptr)):
                    bad.append("the element pointer is not this->data_elements()")
            if not rets:
                bad.append("no normal path")
            if bad:
                rep.violated(key, "R17.elems", "%s<T,%d>::serialize: %s" % (cls, D, sorted(set(bad))[0]), dict(problems=sorted(set(bad))[:4]))
            else:
                rep.ok(key + "#" + tag, "R17.elems", None)
        # view: for_each over its own elements() range; the lambda archives the element it is given
        n += 1
        key = "R17.view@subarray"
        bad = []
        try:
            res = interp.run("ser_view")
            rets = [p for oc, rv, p in res if oc == "ret"]
            for p in rets:
                calls = [e for e in p.events if e[0] in ("opaque", "ext") and "for_each" in str(e[1])]
                others = [k for k, e in items(p) if k.startswith("item_") or k in ("alloc", "dealloc", "construct", "destroy", "assign")]
                if len(calls) != 1 or others:
                    bad.append("expected one for_each over the elements and nothing else, got %d for_each and %s" % (len(calls), others[:3]))
                    continue
                at = repr(typestate.strip(calls[0][3]))
                a3 = [typestate.strip(x) for x in calls[0][3]]
                from_base = [x for x in a3 if isinstance(x, tuple) and ((x[0] == "init" and x[1] == ("param", 0)) or (x[0] == "gep" and isinstance(x[1], tuple) and x[1][:2] == ("init", ("param", 0))))]
                if len(from_base) >= 2:
                    # walked from the view's base pointer in address order: the canonical order only under a guard that makes the layout the
                    # contiguous row-major one of its extents (the idioms accepted by R04.viewflat)
                    if not ownrules._flat_guard_ok(D, 0, [repr(c) for c, v in p.pc.items() if v]):
                        bad.append("the elements are walked in address order from the view's base pointer on a path that does not establish a contiguous row-major layout")
                elif "elements" not in at or "('param', 0)" not in at:
                    bad.append("the traversed range is not this->elements(): %s" % typestate.short_t(calls[0][3], 120))
            if not rets:
                bad.append("no normal path")
        except absint.Limit as e:
            rep.inconclusive(key + "#" + tag, "R17.view", str(e))
            bad = None
        if bad is not None:
            # the per-element action
            lam = element_actions(mod).get("subarray", [])
            if len(lam) != 1:
                bad.append("the per-element action of the view's serialize was not found (%d candidates)" % len(lam))
            else:
                try:
                    lres = interp.run(lam[0])
                    for oc, rv, p in lres:
                        if oc != "ret":
                            continue
                        its = items(p)
                        if [k for k, e in its] != ["item_elem"] or its[0][1][2][2] != ("p", ("param", 1), 0):
                            bad.append("the per-element action archives %s, expected exactly the element it is given" % [k for k, e in its])
                except absint.Limit as e:
                    rep.inconclusive(key + ".lambda#" + tag, "R17.view", str(e))
            if bad:
                rep.violated(key, "R17.view", "subarray<T,%d>::serialize: %s" % (D, sorted(set(bad))[0]), dict(problems=sorted(set(bad))[:4]))
            else:
                rep.ok(key + "#" + tag, "R17.view", None)
        # R17.names: a view saved through one class is loaded through another (a const view into a mutable one): the per-element actions of all view
        # classes archive their element under the same name (archives that check names, XML, reject the stream otherwise)
        n += 1
        strs = {m_.group(1): m_.group(2) for m_ in re.finditer(r'^(@[\w.$]+) = .*? constant \[\d+ x i8\] c"([^"]*?)\\00"', text, re.M)}
        names = {}
        for cls_, fns_ in element_actions(mod).items():
            for fn_ in fns_:
                # the string constants the per-element action passes on (its make_nvp name): read off the function's own instructions
                for b_ in mod.funcs[fn_].blocks.values():
                    for ins in b_:
                        for g in re.findall(r"@\.str(?:\.\d+)?", ins.text):
                            if g in strs:
                                names.setdefault(cls_, set()).add(strs[g])
        key = "R17.names@views"
        allnames = set().union(*names.values()) if names else set()
        if os.environ.get("VERIF_DEBUG"):
            print("R17.names", tag, names)
        if len(names) < 2:
            rep.break_("R17.names (%s): per-element actions found for %s only" % (tag, sorted(names)))
        elif len(allnames) != 1:
            rep.violated(key, "R17.names", "views (D=%d) archive their elements under different names: %s; a view saved by one class cannot be loaded by the other from a name-checking archive"
                         % (D, {k_: sorted(v_) for k_, v_ in sorted(names.items())}), dict(names={k_: sorted(v_) for k_, v_ in names.items()}))
        else:
            rep.ok(key + "#" + tag, "R17.names", dict(name=sorted(allnames)[0]))
    rep.need_instances("R17 rule instances", n, 6 * len(dims))
    rep.explanation = ("The serialize members of array, static_array, array_ref, subarray and extensions_t are interpreted (engine A) on a symbolic archive whose operations "
                       "are external events that may overwrite their operand (as loading does). Decided: the order and completeness of the traversal (extents first and "
                       "complete, resize to the archived extents before elements, exactly one block item over base / num_elements, views over their own elements()). "
                       "Not decided: encodings of concrete archives and element types' own serialize functions.")
    rep.trusted = ["clang 14 -O0 IR + mem2reg", "vlib/absint.py", "the symbolic archive model in checks/c17.py (operator& dispatch by operand kind)"]
    return rep

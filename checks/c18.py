"""C18 — MPI messages built from a view denote exactly its elements in canonical order (engine L over the MPI type constructors).

The adaptor's constructors are evaluated symbolically (optimised IR, polynomial domain) on a view built from a raw descriptor; every MPI_Type_* routine
is an external event whose output handle is a fresh opaque value.  The event sequence is then interpreted in the *type-map algebra* of the MPI standard
(MPI-3.1 section 4.1), restricted to the constructors the adaptor uses:
    basic type                       one element at displacement 0, extent = its size
    MPI_Type_dup(t)                  t
    MPI_Type_vector(c, 1, s, t)      c copies of t, copy i displaced by i * s * extent(t)
    MPI_Type_create_hvector(c,1,S,t) c copies of t, copy i displaced by i * S bytes;  extent = (c - 1) * S + extent(t)  (S >= 0)
    MPI_Type_create_resized(t,0,E)   t with extent E
    message (buf, n, t)              n copies of t, copy j displaced by j * extent(t)
A type is a list of loop levels (count, byte stride), outermost first; its elements in order are the lexicographic enumeration.

M18.map     the levels of (count, datatype) of message(v.elements()) equal the canonical levels [(size_k, stride_k * sizeof(T))]_k of the view, buffer = base
            (levels with count 1 dropped on both sides) — exactly the view's elements, in canonical order
M18.life    every datatype handle created on the path is freed exactly once, never used (as an input of another constructor, in commit, or handed out)
            after being freed; the handle handed out is committed before it is handed out and freed exactly once afterwards (by the destructor);
            predefined datatypes are never freed
M18.data / M18.subarray   the same for create_subarray(layout, old, &new); mpi::data(iterator) with count 1 denotes exactly the element the iterator designates

Not decided: what an MPI implementation does with the message (packing / transfer), and element types other than those mapped by mpi::datatype<T>.
"""
import os

from vlib import common, irval, viewops
from vlib.poly import Poly as P, POS, NONNEG

A = viewops.A

DRIVER = r"""
#include <boost/multi/array.hpp>
#include <boost/multi/adaptors/mpi.hpp>
namespace multi = boost::multi;
static inline auto mk0() { return multi::layout_t<0>{multi::monostate{}, multi::monostate{}, 0, 1}; }
static inline auto mk1(long s0, long o0, long n0) { return multi::layout_t<1>{mk0(), s0, o0, n0}; }
static inline auto mk2(long s0, long o0, long n0, long s1, long o1, long n1) { return multi::layout_t<2>{mk1(s1, o1, n1), s0, o0, n0}; }
static inline auto mk3(long s0, long o0, long n0, long s1, long o1, long n1, long s2, long o2, long n2) { return multi::layout_t<3>{mk2(s1, o1, n1, s2, o2, n2), s0, o0, n0}; }
static inline auto mk4(long s0, long o0, long n0, long s1, long o1, long n1, long s2, long o2, long n2, long s3, long o3, long n3) { return multi::layout_t<4>{mk3(s1, o1, n1, s2, o2, n2, s3, o3, n3), s0, o0, n0}; }
extern "C" void sink(void const* buf, long count, MPI_Datatype dt);
#define P1 long s0, long o0, long n0
#define P2 P1, long s1, long o1, long n1
#define P3 P2, long s2, long o2, long n2
#define P4 P3, long s3, long o3, long n3
#define Q1 s0, o0, n0
#define Q2 Q1, s1, o1, n1
#define Q3 Q2, s2, o2, n2
#define Q4 Q3, s3, o3, n3
#define MSG(K) extern "C" void msg_##K(double* base, P##K) { multi::subarray<double, K> v(mk##K(Q##K), base); multi::mpi::message<> m(v.elements()); sink(m.buffer(), m.count(), m.datatype()); }
MSG(1) MSG(2) MSG(3) MSG(4)
#define CMSG(K) extern "C" void cmsg_##K(double* base, P##K) { multi::subarray<double, K> v(mk##K(Q##K), base); auto const& cv = v; multi::mpi::message<> m(cv.elements()); sink(m.buffer(), m.count(), m.datatype()); }
CMSG(2)
#define SUB(K) extern "C" void sub_##K(double* base, P##K) { multi::subarray<double, K> v(mk##K(Q##K), base); MPI_Datatype t; multi::mpi::create_subarray(v.layout(), MPI_DOUBLE, &t); MPI_Type_commit(&t); sink(v.base(), 1, t); MPI_Type_free(&t); }
SUB(1) SUB(2) SUB(3)
// ownership transfers of the committed datatype: message(buf, skeleton&&), skeleton(skeleton&&), std::move(skeleton).datatype()
#define SKMSG(K) extern "C" void skmsg_##K(double* base, P##K) { multi::subarray<double, K> v(mk##K(Q##K), base); multi::mpi::skeleton<> sk(v.layout(), MPI_DOUBLE); multi::mpi::message<> m(v.base(), std::move(sk)); sink(m.buffer(), m.count(), m.datatype()); }
SKMSG(1) SKMSG(2)
#define SKMOVE(K) extern "C" void skmove_##K(double* base, P##K) { multi::subarray<double, K> v(mk##K(Q##K), base); multi::mpi::skeleton<> a(v.layout(), MPI_DOUBLE); multi::mpi::skeleton<> b(std::move(a)); sink(v.base(), b.count(), b.datatype()); }
SKMOVE(1) SKMOVE(2)
#define SKOUT(K) extern "C" void skout_##K(double* base, P##K) { multi::subarray<double, K> v(mk##K(Q##K), base); multi::mpi::skeleton<> a(v.layout(), MPI_DOUBLE); long const n = a.count(); MPI_Datatype t = std::move(a).datatype(); sink(v.base(), n, t); MPI_Type_free(&t); }
SKOUT(1) SKOUT(2)
extern "C" void data_1(double* base, P1) { multi::subarray<double, 1> v(mk1(Q1), base); multi::mpi::data d(v.begin()); sink(d.buffer(), 1, d.datatype()); }
"""

ESZ = 8


class Ty:
    def __init__(self, levels, extent, basic=False):
        self.levels, self.extent, self.basic = levels, extent, basic


def interpret(calls, basics):
    """-> (sunk (buf, count, Ty, handle), lifecycle problems)"""
    types = dict(basics)
    created, freed, committed = [], [], set()
    problems = []
    sunk = None

    def use(h, what):
        if h not in types:
            problems.append("%s uses an unknown datatype handle %r" % (what, h))
            return None
        if h in freed:
            problems.append("%s uses datatype %r after it was freed" % (what, h))
        return types[h]
    for callee, vals, der, out in calls:
        if callee == "MPI_Type_size":
            continue
        if callee == "MPI_Type_dup":
            t = use(vals[0], callee)
            if t is not None:
                types[out] = Ty(list(t.levels), t.extent)
                created.append(out)
        elif callee == "MPI_Type_vector":
            c, bl, st, old = vals[0], vals[1], vals[2], vals[3]
            t = use(old, callee)
            if t is not None:
                if not (bl.is_const() and bl.const_value() == 1):
                    problems.append("MPI_Type_vector with blocklength %r" % bl)
                types[out] = Ty([(c, st * t.extent)] + t.levels, (c - 1) * st * t.extent + t.extent)
                created.append(out)
        elif callee == "MPI_Type_contiguous":
            c, old = vals[0], vals[1]
            t = use(old, callee)
            if t is not None:
                types[out] = Ty([(c, t.extent)] + t.levels, c * t.extent)
                created.append(out)
        elif callee == "MPI_Type_create_hvector":
            c, bl, st, old = vals[0], vals[1], vals[2], vals[3]
            t = use(old, callee)
            if t is not None:
                if not (bl.is_const() and bl.const_value() == 1):
                    problems.append("MPI_Type_create_hvector with blocklength %r" % bl)
                types[out] = Ty([(c, st)] + t.levels, (c - 1) * st + t.extent)
                created.append(out)
        elif callee == "MPI_Type_create_resized":
            old, lb, ext = vals[0], vals[1], vals[2]
            t = use(old, callee)
            if t is not None:
                if not (lb.is_const() and lb.const_value() == 0):
                    problems.append("MPI_Type_create_resized with lower bound %r" % lb)
                types[out] = Ty(list(t.levels), ext)
                created.append(out)
        elif callee == "MPI_Type_commit":
            h = der[0]
            use(h, callee)
            committed.add(h)
        elif callee == "MPI_Type_free":
            h = der[0]
            if h in basics:
                problems.append("a predefined datatype is freed")
            elif h not in created:
                problems.append("MPI_Type_free of a handle that was not created on this path: %r" % h)
            elif h in freed:
                problems.append("datatype %r is freed twice" % h)
            freed.append(h)
        elif callee == "sink":
            buf, count, h = vals[0], vals[1], vals[2]
            t = use(h, "the message")
            if h not in committed and h not in basics:
                problems.append("the datatype handed out was not committed")
            sunk = (buf, count, t, h)
        else:
            problems.append("unexpected external call " + callee)
    for h in created:
        if h not in freed:
            problems.append("datatype %r is created and never freed (leak)" % h)
    return sunk, problems


def norm(levels):
    return [(c, s) for c, s in levels if not (c.is_const() and c.const_value() == 1)]


def run(tier):
    rep = common.Report("C18", tier, "other", "one obligation per (constructor, D, case, rule)")
    wd = common.workdir("c18")
    src = os.path.join(wd, "mpi.cpp")
    with open(src, "w") as fh:
        fh.write(DRIVER)
    inc = ["-I/usr/lib/x86_64-linux-gnu/openmpi/include", "-I/usr/lib/x86_64-linux-gnu/openmpi/include/openmpi"]
    text = irval.emit_ir(src, src[:-4] + ".ll", defines=tuple(["-DNDEBUG", "-fno-vectorize", "-fno-slp-vectorize", "-mllvm", "-inline-threshold=1000000"] + inc))
    funcs, structs = irval.parse_module(text)
    ev = irval.Evaluator(funcs, structs)
    rep.units.add("mpi.cpp")
    MPI = ("MPI_Type_size", "MPI_Type_dup", "MPI_Type_vector", "MPI_Type_contiguous", "MPI_Type_create_hvector", "MPI_Type_create_resized", "MPI_Type_commit", "MPI_Type_free", "sink")
    ev.record_external = lambda c: c in MPI
    outs = {}

    def model(callee, vals, derefs, k):
        # output parameters of the MPI routines
        if callee == "MPI_Type_size":
            return [(vals[1], P.const(ESZ))]
        if callee in ("MPI_Type_dup",):
            h = irval.atom("handle", k)
            outs[k] = h
            return [(vals[1], h)]
        if callee == "MPI_Type_contiguous":
            h = irval.atom("handle", k)
            outs[k] = h
            return [(vals[2], h)]
        if callee in ("MPI_Type_vector", "MPI_Type_create_hvector"):
            h = irval.atom("handle", k)
            outs[k] = h
            return [(vals[4], h)]
        if callee == "MPI_Type_create_resized":
            h = irval.atom("handle", k)
            outs[k] = h
            return [(vals[3], h)]
        if callee == "MPI_Type_free":
            return [(vals[0], P.sym("@ompi_mpi_datatype_null"))]
        return []
    ev.external_model = model
    basics = {P.sym("@ompi_mpi_double"): Ty([], P.const(ESZ), True)}
    dims = (1, 2, 3) if tier == "quick" else (1, 2, 3, 4)
    n = 0
    jobs = [("message(v.elements())", "msg_%d" % D, D) for D in dims] + [("message(const view .elements())", "cmsg_2", 2)] + \
           [("create_subarray(layout)", "sub_%d" % D, D) for D in (1, 2, 3)] + [("data(iterator)", "data_1", 1)] + \
           [("message(buf, skeleton&&)", "skmsg_%d" % D, D) for D in (1, 2)] + [("skeleton(skeleton&&)", "skmove_%d" % D, D) for D in (1, 2)] + \
           [("std::move(skeleton).datatype()", "skout_%d" % D, D) for D in (1, 2)]
    for what, fn, D in jobs:
        # case split: every size is 1 or >= 2 in thorough (count-1 levels are dropped by MPI and by the canonical form alike); quick: all >= 1 generic
        size_classes = [tuple(">" for _ in range(D))]
        if tier == "thorough":
            import itertools
            size_classes = list(itertools.product(("1", ">"), repeat=D))
        import itertools as _it
        # every stride is 1 or >= 2 (a unit stride is the natural special case of a type constructor); thorough additionally splits the sizes
        for cls, scls in _it.product(size_classes, list(_it.product(("1", ">"), repeat=D))):
            env, signs = {}, {"base": POS, "__distinct": {"@ompi_mpi_datatype_null", "@ompi_mpi_double"}}
            for k in range(D):
                if scls[k] == "1":
                    env["s%d" % k] = P.const(1)
                else:
                    env["s%d" % k] = 2 + A("q%d" % k)
                    signs["q%d" % k] = NONNEG
                if cls[k] == ">":
                    env["z%d" % k] = 2 + A("t%d" % k)
                    signs["t%d" % k] = NONNEG
                else:
                    env["z%d" % k] = P.const(1)
            args = [A("base")]
            for k in range(D):
                z = A("z%d" % k).subst(env)
                sk = A("s%d" % k).subst(env)
                args += [sk, P.const(0), z * sk]
            tag = "%s,D=%d,strides %s%s" % (what, D, "".join(scls), (",sizes " + "".join(cls)) if tier == "thorough" else "")
            outs.clear()
            n += 1
            try:
                ev.run(fn, args, signs)
            except irval.Inconclusive as e:
                # the adaptor branches on a relation between strides and sizes that the case does not fix (a shortcut for special layouts):
                # decide on the concrete members of the case class with small strides and sizes
                import itertools as _it2
                wit = None
                decided = 0
                for svals in _it2.product((1, 2, 3, 4, 6), repeat=D):
                    for zvals in _it2.product((1, 2, 3), repeat=D):
                        if any((scls[k] == "1") != (svals[k] == 1) for k in range(D)) or any((cls[k] == "1") != (zvals[k] == 1) for k in range(D)):
                            continue
                        cargs = [A("base")]
                        for k in range(D):
                            cargs += [P.const(svals[k]), P.const(0), P.const(zvals[k] * svals[k])]
                        outs.clear()
                        try:
                            ev.run(fn, cargs, signs)
                        except (irval.Inconclusive, irval.AssertFires):
                            continue
                        decided += 1
                        ccalls = [(c_, v_, d_, outs.get(i_ + 1)) for i_, (c_, v_, d_, _s) in enumerate(ev.extcalls)]
                        sunk_c, probs_c = interpret(ccalls, basics)
                        if sunk_c is None or sunk_c[2] is None:
                            continue
                        got_c = norm([(sunk_c[1], sunk_c[2].extent)] + sunk_c[2].levels)
                        want_c = norm([(P.const(zvals[k]), P.const(svals[k] * ESZ)) for k in range(D)]) if not fn.startswith("data_") else []
                        # two level lists denote the same element sequence iff they enumerate the same displacements in the same order
                        def enum(levels):
                            res = [0]
                            for c_, st_ in levels:
                                res = [o + i_ * int(st_.const_value()) for o in res for i_ in range(int(c_.const_value()))]
                            return res
                        try:
                            if enum(got_c) != enum(want_c) or probs_c:
                                wit = (dict(strides=svals, sizes=zvals), got_c, want_c, probs_c)
                                break
                        except Exception:
                            continue
                    if wit:
                        break
                if wit:
                    rep.violated("M18.map(%s)" % tag, "M18.map", "%s: the adaptor takes a layout-dependent shortcut (%s) and on the concrete member %s the message denotes the element "
                                 "loops %s, the view's canonical order is %s%s" % (tag, str(e)[:80], wit[0], wit[1], wit[2], ("; " + wit[3][0]) if wit[3] else ""), dict(member=wit[0]))
                else:
                    rep.inconclusive("M18.map(%s)" % tag, "M18.map", str(e) + " (%d concrete members agree)" % decided)
                continue
            except irval.AssertFires as e:
                rep.violated("M18.map(%s)" % tag, "M18.map", "the constructor aborts on a valid view: %s" % e, dict())
                continue
            calls = []
            for i, (callee, vals, der, _stk) in enumerate(ev.extcalls):
                calls.append((callee, vals, der, outs.get(i + 1)))
            sunk, problems = interpret(calls, basics)
            key = "M18.life(%s)" % tag
            if problems:
                rep.violated(key, "M18.life", "%s: %s" % (tag, problems[0]), dict(problems=problems[:5], calls=[c[0] for c in calls]))
            else:
                rep.ok(key, "M18.life", dict(calls=[c[0] for c in calls]))
            key = "M18.map(%s)" % tag
            if sunk is None or sunk[2] is None:
                rep.violated(key, "M18.map", "%s: no (buffer, count, datatype) is produced" % tag, dict(calls=[c[0] for c in calls]))
                continue
            buf, count, ty, h = sunk
            got = norm([(count, ty.extent)] + ty.levels)
            want = norm([(A("z%d" % k).subst(env), A("s%d" % k).subst(env) * ESZ) for k in range(D)])
            if fn.startswith("data_"):
                want = []         # data(it) with count 1 denotes the one element the iterator designates
            bad = []
            if buf != A("base"):
                bad.append("buffer is %r, expected the view's base" % buf)
            if got != want:
                bad.append("the message denotes the element loops %s (count, byte stride; outermost first), the view's canonical order is %s" % (got, want))
            if bad:
                rep.violated(key, "M18.map", "%s: %s" % (tag, "; ".join(bad)[:500]), dict(got=repr(got), want=repr(want), calls=[c[0] for c in calls]))
            else:
                rep.ok(key, "M18.map", dict(levels=repr(got)))
                rep.sample(dict(obligation=key, levels=repr(got)))
    # assertion-enabled build: a message of an array without elements (no storage: null base, count 0) is built without reaching an assertion
    try:
        text2 = irval.emit_ir(src, src[:-4] + "_dbg.ll", defines=tuple(["-UNDEBUG", "-fno-vectorize", "-fno-slp-vectorize", "-mllvm", "-inline-threshold=1000000"] + inc))
        ev2 = irval.Evaluator(*irval.parse_module(text2))
        ev2.record_external = ev.record_external
        ev2.external_model = model
        for D in (1, 2):
            key = "M18.silent(message(v.elements()) of an array without elements,D=%d)" % D
            args = [P.const(0)]
            for k in range(D):
                args += [P.const(1) if k == D - 1 else A("z1"), P.const(0), P.const(0)]
            outs.clear()
            n += 1
            try:
                ev2.run("msg_%d" % D, args, {"z1": POS, "__distinct": {"@ompi_mpi_datatype_null", "@ompi_mpi_double"}})
                sunk = [c for c in ev2.extcalls if c[0] == "sink"]
                if len(sunk) == 1 and sunk[0][1][1] == P.const(0):
                    rep.ok(key, "M18.silent", None)
                else:
                    rep.violated(key, "M18.silent", "the message of an empty array does not have count 0: %r" % [c[1][1] for c in sunk], dict())
            except irval.AssertFires as e:
                rep.violated(key, "M18.silent", "building the message of an array without elements reaches an assertion: %s" % str(e)[:200], dict())
            except irval.Inconclusive as e:
                rep.inconclusive(key, "M18.silent", str(e))
    except common.AnalysisBroken as e:
        rep.break_("M18.silent: the driver does not compile with assertions enabled: %s" % str(e)[:200])
    rep.need_instances("M18 constructor cases evaluated", n, 8)
    rep.explanation = ("The adaptor's message / data / create_subarray constructors are evaluated symbolically on an arbitrary view (positive strides, sizes >= 1); the "
                       "sequence of MPI_Type_* calls is interpreted in the type-map algebra of the MPI standard and compared, as lists of (count, byte stride) loop "
                       "levels, with the canonical element order of the view; handle lifecycle (create / commit / use / free) is checked on the same sequence. "
                       "Not decided: what an MPI implementation does with the message.")
    rep.trusted = ["clang 14 -O2 (normaliser)", "the type-map algebra of MPI-3.1 section 4.1 as encoded in checks/c18.py (interpret)", "vlib/irval.py, vlib/poly.py",
                   "Open MPI's mpi.h (handles are pointers to global objects)"]
    rep.assumptions = ["M18.map / M18.life: positive strides and non-empty views (reversed views are outside the adaptor's use); the array without elements is M18.silent",
                       "sizeof(double) = 8 as the value returned by MPI_Type_size for MPI_DOUBLE"]
    return rep

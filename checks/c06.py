"""C06 — reextent keeps the common part; clear / reshape do what they say (engines A + L).

R06.noop     reextent to the current extents is an effect-free early return (storage, iterators and views stay valid)
R06.order    on resizing paths: allocate, construct ALL new elements (fill value / value-initialisation), copy over
             intersection(old extensions, new extensions), then destroy old, deallocate old, commit base_ and layout
R06.clear    clear() ends with the empty layout;  R06.reshape  reshape touches only the layout
R06.assign   assign(first, last) copies in place only when the number AND (D > 1) the extents of the items match the array's; otherwise it rebuilds
O06.isect    intersection(range, range) for ALL integers, by enumeration of the 75 weak orderings of its four endpoints: the result is
             [max(firsts), min(lasts)) when that is non-empty and empty otherwise (the function only compares, so the orderings are exhaustive)
"""
import itertools

from vlib import common, ownrules, viewops, irval
from vlib.poly import Poly as P, POS, NONNEG

A = viewops.A


def weak_orderings(names):
    """all ordered set partitions of names"""
    names = list(names)
    if not names:
        yield []
        return
    first, rest = names[0], names[1:]
    for part in weak_orderings(rest):
        # put `first` into an existing block or a new block at any position
        for i in range(len(part)):
            yield part[:i] + [part[i] + [first]] + part[i + 1:]
        for i in range(len(part) + 1):
            yield part[:i] + [[first]] + part[i:]


def order_cases(names, constraints):
    """constraints: list of (a, b) meaning a <= b required"""
    cases = []
    for part in weak_orderings(names):
        rank = {}
        for r, block in enumerate(part):
            for n in block:
                rank[n] = r
        if any(rank[a] > rank[b] for a, b in constraints):
            continue
        env, signs = {}, {}
        cur = A("t0")
        for r, block in enumerate(part):
            if r > 0:
                cur = cur + A("d%d" % r)
                signs["d%d" % r] = POS
            for n in block:
                env[n] = cur
        cases.append(dict(env, __signs=signs, __rank=rank, __name="<".join("=".join(sorted(b)) for b in part)))
    return cases


def add_isect(cr):
    names = ["a0", "a1", "b0", "b1"]
    cases = order_cases(names, [("a0", "a1"), ("b0", "b1")])

    def wants(case, env):
        r = case["__rank"]
        lo = "a0" if r["a0"] >= r["b0"] else "b0"
        hi = "a1" if r["a1"] <= r["b1"] else "b1"
        if r[lo] < r[hi]:
            return {(0, "first"): A(lo), (1, "last"): A(hi), (2, "size"): A(hi) - A(lo), (3, "empty"): P.const(0)}
        return {(2, "size"): P.const(0), (3, "empty"): P.const(1)}
    for ty, mk in (("range", "multi::irange{a0, a1}, multi::irange{b0, b1}"), ("extension_t", "multi::iextension{a0, a1}, multi::iextension{b0, b1}"),
                   ("extensions_t<1>", "multi::extensions_t<1>{multi::iextension{a0, a1}}, multi::extensions_t<1>{multi::iextension{b0, b1}}")):
        get = "r" if "extensions_t" not in ty else "std::get<0>(r)"
        body = "using std::get; auto r = intersection(%s); out[0] = %s.first(); out[1] = %s.last(); out[2] = %s.size(); out[3] = %s.is_empty() ? 1 : 0;" % (mk, get, get, get, get)
        cr.add("O06.isect(%s)" % ty, "O06.isect", 1, names, body, wants, cases=cases, view=False)
    # D = 2: both dimensions independent: dimension 1 fixed non-empty overlap, dimension 0 enumerated (and vice versa)
    for k in (0, 1):
        mk = ("multi::extensions_t<2>{multi::iextension{%s}, multi::iextension{%s}}, multi::extensions_t<2>{multi::iextension{%s}, multi::iextension{%s}}" %
              (("a0, a1", "u, u + 5", "b0, b1", "u + 2, u + 9") if k == 0 else ("u, u + 5", "a0, a1", "u + 2, u + 9", "b0, b1")))
        body = ("using std::get; auto r = intersection(%s); out[0] = get<%d>(r).first(); out[1] = get<%d>(r).last(); out[2] = get<%d>(r).size(); out[3] = get<%d>(r).is_empty() ? 1 : 0;"
                " out[4] = get<%d>(r).first(); out[5] = get<%d>(r).last();" % (mk, k, k, k, k, 1 - k, 1 - k))

        def wants2(case, env, base=wants):
            w = dict(base(case, env))
            w[(4, "other.first")] = A("u") + 2
            w[(5, "other.last")] = A("u") + 5
            return w
        cr.add("O06.isect(extensions_t<2>,dim%d)" % k, "O06.isect", 1, names + ["u"], body, wants2, cases=cases, view=False)
    return len(cases)


def run(tier):
    rep = common.Report("C06", tier, "other", "one obligation per (rule, reextent overload, D) plus one per (intersection overload, weak ordering of the endpoints, observable)")
    wd = common.workdir("own")
    dims = (1, 2) if tier == "quick" else (1, 2, 3)
    for D in dims:
        mod = ownrules.module(wd, D)
        res = ownrules.analyse(mod, rep)
        ownrules.reextent_rules(rep, mod, res, "D=%d" % D)
        ownrules.assign_rules(rep, mod, res, "D=%d" % D, D)
    cr = viewops.CustomRun(rep, "C06", True, common.workdir("c06"), "isect")
    ncases = add_isect(cr)
    cr.compile(nshards=3)
    cr.check()
    rep.need_instances("O06.isect orderings", ncases, 26)
    rep.need_instances("R06 rule instances", sum(1 for o in rep.obligations if o["family"].startswith("R06")), 7 * len(dims))
    rep.exhaustive = True
    rep.explanation = ("reextent / clear / reshape: order and effect facts read off the abstract-interpretation traces (engine A). intersection: the optimised code "
                       "is evaluated in the polynomial domain under every weak ordering of the four endpoints (valid ranges: first <= last), which is exhaustive "
                       "for a function that only compares. Not decided: element values after the call.")
    rep.trusted = ["clang 14 (-O0 IR for engine A, -O2 IR for engine L)", "vlib/absint.py, vlib/ownrules.py, vlib/irval.py, vlib/poly.py"]
    return rep

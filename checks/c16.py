"""C16 — const propagation, decided exhaustively at the type level (engine T).

W16.elem   for every access path (depth <= 2 quick / <= 3 thorough) from every const root, D = 1..3: the fully indexed
           element expression is not a reference to a non-const element (and the twin path from the mutable root is,
           for the core alphabet);
W16.proxy  for every distinct proxy type that a const path yields: `p = other`, `p.fill(x)`, `swap(p, q)`,
           `p.elements() = ...` are ill-formed (one compile-fail TU each), and the mutable twins compile;
W16.rebind views / references are not copy-constructible.
Findings are keyed by culprit = (operation, static type and value category it is applied to), never by path or line.
"""
import itertools
import os
import re

from vlib import common, witness

ELEM = "int"

# ---------------------------------------------------------------------------------------------------------------
# the access-path alphabet, typed by result "kind" so that only well-formed paths are generated
# kinds: ("V", d) view/array of dimension d ; ("It", d) ; ("ER",) ; ("EI",) ; ("Cur", d) ; ("E",)


def sub(d):
    return ("V", d - 1) if d > 1 else ("E",)


def ops_of(kind, tier):
    k = kind[0]
    out = []
    if k == "V":
        d = kind[1]
        out += [("[i]", "@[0]", sub(d)), ("(i)", "@(0)", sub(d)), ("()", "@()", kind),
                ("({a,b})", "@({0, 1})", kind),
                ("begin", "@.begin()", ("It", d)), ("end", "@.end()", ("It", d)), ("cbegin", "@.cbegin()", ("It", d)),
                ("elements", "@.elements()", ("ER",)), ("home", "@.home()", ("Cur", d)),
                ("front", "@.front()", sub(d)), ("back", "@.back()", sub(d)),
                ("sliced", "@.sliced(0, 1)", kind), ("strided", "@.strided(1)", kind), ("dropped", "@.dropped(0)", kind),
                ("taked", "@.taked(1)", kind), ("rotated", "@.rotated()", kind), ("unrotated", "@.unrotated()", kind),
                ("reversed", "@.reversed()", kind)]
        if d >= 2:
            out += [("(i,j)", "@(0, 0)", ("V", d - 2) if d > 2 else ("E",)),
                    ("({a,b},{c,d})", "@({0, 1}, {0, 1})", kind),
                    ("(i,{c,d})", "@(0, {0, 1})", ("V", d - 1)),
                    ("transposed", "@.transposed()", kind), ("~", "(~@)", kind),
                    ("diagonal", "@.diagonal()", ("V", d - 1)), ("flatted", "@.flatted()", ("V", d - 1)),
                    ("reindexed(i,j)", "@.reindexed(1, 1)", kind)]
        if d <= 3:
            out += [("partitioned", "@.partitioned(1)", ("V", d + 1)), ("chunked", "@.chunked(1)", ("V", d + 1))]
        out += [("reindexed", "@.reindexed(1)", kind)]
        if tier == "thorough":
            out += [("cend", "@.cend()", ("It", d)),
                    ("range", "@.range({0, 1})", kind), ("sliced3", "@.sliced(0, 1, 1)", kind),
                    ("as_const", "@.as_const()", kind)]
            if d <= 3:
                out += [("halved", "@.halved()", ("V", d + 1))]
    elif k == "It":
        d = kind[1]
        out += [("*it", "(*@)", sub(d)), ("it[n]", "@[0]", sub(d))]
        if tier == "thorough":
            out += [("it+n", "(@ + 1)", kind)]
    elif k == "ER":
        out += [("er[k]", "@[0]", ("E",)), ("er.front", "@.front()", ("E",)), ("er.back", "@.back()", ("E",)),
                ("er.begin", "@.begin()", ("EI",)), ("er.end", "@.end()", ("EI",))]
    elif k == "EI":
        out += [("*ei", "(*@)", ("E",)), ("ei[k]", "@[0]", ("E",))]
    elif k == "Cur":
        d = kind[1]
        out += [("cur[i]", "@[0]", ("Cur", d - 1) if d > 1 else ("E",))]
    return out


def down(expr, kind):
    """canonical continuation of an expression down to one element"""
    k = kind[0]
    if k == "E":
        return expr
    if k == "V":
        return expr + "[0]" * kind[1]
    if k == "It":
        return down("(*%s)" % expr, sub(kind[1]))
    if k == "ER":
        return expr + "[0]"
    if k == "EI":
        return "(*%s)" % expr
    if k == "Cur":
        return expr + "[0]" * kind[1]
    raise ValueError(kind)


def gen_paths(d, depth, tier):
    """all paths (tuple of op names, expression template with one {} for the root, result kind)"""
    level = [((), "@", ("V", d))]
    allp = list(level)
    for _ in range(depth):
        nxt = []
        for names, expr, kind in level:
            for name, tmpl, rk in ops_of(kind, tier):
                nxt.append((names + (name,), tmpl.replace("@", expr), rk))
        allp += nxt
        level = nxt
    return allp


# roots: (name, is_const, C++ type as a function of D)
def roots(d):
    A = "multi::array<int, %d>" % d
    S = "multi::static_array<int, %d>" % d
    R = "multi::array_ref<int, %d>" % d
    V = "multi::subarray<int, %d>" % d
    CV = "multi::const_subarray<int, %d, int*>" % d
    return [
        ("array&", False, A + "&"), ("static_array&", False, S + "&"), ("array_ref&", False, R + "&"),
        ("view(auto&&)", False, V + "&"),
        ("array const&", True, A + " const&"), ("static_array const&", True, S + " const&"),
        ("array_ref const&", True, R + " const&"), ("view(auto const&)", True, V + " const&"),
        ("const-view(auto&&)", True, CV + "&"), ("const-view(auto const&)", True, CV + " const&"),
    ]


PRE = r"""
#pragma once
#include <boost/multi/array.hpp>
#include <type_traits>
#include <utility>
namespace multi = boost::multi;
struct ill_typed {};
template<class E> constexpr int verdict() {
	if constexpr(std::is_same_v<E, ill_typed>) { return -1; }
	else { return (std::is_reference_v<E> && !std::is_const_v<std::remove_reference_t<E>>) || std::is_assignable_v<E, int> ? 1 : 0; }
}
template<class T> struct Probe { static_assert(sizeof(T) == 0, "PROBE"); };
"""

# operations the property does not promise to be writable from a mutable root (they are explicitly const views)
CONST_BY_NAME = {"cbegin", "cend", "as_const"}


def shard_tu(wd, sid, d, items, rootlist):
    """items: list of (pid, expr_template_down).  Emits detection templates + one static_assert per (path, root)."""
    path = os.path.join(wd, "w16_D%d_s%d.cpp" % (d, sid))
    out = ['#include "%s"' % os.path.join(wd, "pre.hpp")]
    for pid, ex in items:
        e = ex.replace("@", "std::declval<R>()")
        out.append("template<class R> auto p%d(int) -> decltype(%s);" % (pid, e))
        out.append("template<class R> auto p%d(...) -> ill_typed;" % pid)
    for pid, ex in items:
        for ri, (rn, rc, rt) in enumerate(rootlist):
            out.append('static_assert(verdict<decltype(p%d<%s>(0))>() == 2, "V %d %d");' % (pid, rt, pid, ri))
    with open(path, "w") as fh:
        fh.write("\n".join(out) + "\n")
    return path


VRE = re.compile(r"requirement 'verdict<(.*)>\(\) == 2'.*\"V (\d+) (\d+)\"")
VRE2 = re.compile(r'"V (\d+) (\d+)"')


def run_shard(args):
    wd, sid, d, items, rootlist, pch = args
    tu = shard_tu(wd, sid, d, items, rootlist)
    rc, diags, raw = witness.compile_tu(tu, ["-include-pch", pch])
    res = {}
    hard = []
    for err, notes in witness.group_errors(diags):
        m = VRE2.search(err["msg"])
        if m and "static_assert" in err["msg"]:
            # the value of verdict is not printed by clang 14; it is recovered from the printed decltype
            mm = re.search(r"requirement 'verdict<(.*)>\(\) == 2'", err["msg"])
            ty = mm.group(1) if mm else "?"
            res[(int(m.group(1)), int(m.group(2)))] = ty
        else:
            hard.append((err, witness.attribute(err, notes, tu)))
    return res, hard, len(items) * len(rootlist)


def classify(ty):
    """verdict from the printed type of the element expression (as printed inside the failed static_assert)"""
    ty = ty.strip()
    if ty == "ill_typed":
        return -1
    if ty.endswith("&"):
        core = ty.rstrip("&").strip()
        return 0 if (core.startswith("const ") or core.endswith(" const")) else 1
    return 0  # prvalue of a scalar: not assignable


def run(tier):
    rep = common.Report("C16", tier, "proof",
                        "exhaustive generation of every access path of depth<=%d over the typed alphabet from 10 roots, D=1..3; "
                        "a case is one (path, root, D); non-trivial = well-typed; distinct = distinct (path, root, D)" % (3 if tier == "thorough" else 2))
    depth = 3 if tier == "thorough" else 2
    wd = common.workdir("c16")
    hdr, pch = witness.make_pch(wd, PRE)
    rep.trusted = ["clang 14 front end (overload resolution, template instantiation, type printing in diagnostics)",
                   "the typed alphabet in checks/c16.py (which operations exist per kind of object)"]
    rep.checker_cmd = "clang++ -std=gnu++17 -I/repo/include -fsyntax-only -ferror-limit=0 <generated witness TUs>"
    jobs = []
    meta = {}
    for d in (1, 2, 3):
        paths = gen_paths(d, depth, tier)
        rl = roots(d)
        items = []
        for i, (names, expr, kind) in enumerate(paths):
            items.append((i, down(expr, kind)))
            meta[(d, i)] = (names, expr, kind)
        nsh = max(1, min(64, len(items) // 400))
        for s in range(nsh):
            jobs.append((wd, s, d, items[s::nsh], rl, pch))
    results = witness.parallel(run_shard, jobs)
    total = 0
    table = {}   # (d, pid, ri) -> verdict
    types = {}
    hard_all = []
    for (wd_, sid, d, items, rl, _), (res, hard, n) in zip(jobs, results):
        total += n
        for (pid, ri), ty in res.items():
            table[(d, pid, ri)] = classify(ty)
            types[(d, pid, ri)] = ty
        hard_all += [(d, sid, e, ln) for e, ln in hard]
        rep.units.add("w16_D%d_s%d.cpp" % (d, sid))
    if len(table) != total:
        rep.break_("expected one verdict per (path, root): %d verdicts for %d witnesses (hard errors: %d; first: %s)" % (
            len(table), total, len(hard_all), hard_all[0][2]["msg"][:300] if hard_all else "-"))
    # ---- W16.elem ----------------------------------------------------------------------------------------------
    well = 0
    failing = {}
    for d in (1, 2, 3):
        rl = roots(d)
        for (dd, pid, ri), v in table.items():
            if dd != d:
                continue
            names, expr, kind = meta[(d, pid)]
            rn, rconst, rt = rl[ri]
            if v == -1:
                continue
            well += 1
            if rconst and v == 1:
                failing[(d, pid, ri)] = (names, expr, kind)
    # minimal failing paths: no proper prefix (same root) fails
    by_root = {}
    for (d, pid, ri), (names, expr, kind) in failing.items():
        by_root.setdefault((d, ri), {})[names] = (pid, expr, kind)
    minimal = []
    for (d, ri), m in by_root.items():
        for names, (pid, expr, kind) in m.items():
            if not any(names[:k] in m for k in range(len(names))):
                minimal.append((d, ri, names, pid, expr, kind))
    # culprit = last op + static type of the prefix it is applied to (asked from the compiler via Probe)
    culprits = {}
    if minimal:
        culprits = probe_culprits(wd, pch, minimal, rep)
    explained = {}
    for (d, pid, ri), (names, expr, kind) in failing.items():
        m = by_root[(d, ri)]
        for k in range(len(names) + 1):
            if names[:k] in m:
                c = culprits.get((d, ri, names[:k]), "unattributed:" + "/".join(names[:k]))
                explained.setdefault(c, []).append("D=%d root=%s path=%s" % (d, roots(d)[ri][0], ".".join(names)))
                break
    n_const_paths = sum(1 for (d, pid, ri), v in table.items() if v != -1 and roots(d)[ri][1])
    for c, plist in sorted(explained.items()):
        rep.violated("W16.elem:" + c, "W16.elem",
                     "a const access path yields a modifiable element reference; culprit %s explains %d failing paths (e.g. %s)" % (c, len(plist), plist[0]),
                     dict(culprit=c, paths=len(plist), examples=plist[:10]))
    # every const path that is fine is one discharged obligation
    okc = 0
    for (d, pid, ri), v in table.items():
        if v == 0 and roots(d)[ri][1]:
            okc += 1
    rep.extra["const_paths_checked"] = n_const_paths
    rep.extra["const_paths_not_writable"] = okc
    for i in range(okc):
        pass
    rep.obligations += [dict(key="W16.elem.const#%d" % i, family="W16.elem", status="ok", detail=None, nontrivial=True) for i in range(okc)]
    # mutable twins: for the core alphabet the same path from a mutable root must be writable
    mut_bad = {}
    mut_ok = 0
    for (d, pid, ri), v in table.items():
        rn, rconst, rt = roots(d)[ri]
        if rconst or v == -1:
            continue
        names, expr, kind = meta[(d, pid)]
        if any(n in CONST_BY_NAME for n in names):
            continue
        if v == 1:
            mut_ok += 1
        else:
            mut_bad.setdefault((d, ri), {})[names] = pid
    mut_min = {}
    for (d, ri), m in mut_bad.items():
        for names in m:
            if not any(names[:k] in m for k in range(len(names))):
                mut_min.setdefault(names[-1] if names else "<root>", []).append("D=%d root=%s path=%s" % (d, roots(d)[ri][0], ".".join(names)))
    rep.obligations += [dict(key="W16.elem.mut#%d" % i, family="W16.mut", status="ok", detail=None, nontrivial=True) for i in range(mut_ok)]
    rep.extra["mutable_paths_writable"] = mut_ok
    rep.extra["mutable_paths_readonly_by_last_op"] = {k: len(v) for k, v in sorted(mut_min.items())}
    for op, ex in sorted(mut_min.items()):
        key = "W16.mut:%s" % op
        rep.violated(key, "W16.mut", "paths from mutable roots do not yield a modifiable element after `%s` (%d minimal paths, e.g. %s)" % (op, len(ex), ex[0]),
                     dict(examples=ex[:10]))
    rep.need_instances("W16.elem well-typed (path,root,D)", well, MIN_WELL[tier])
    rep.extra["witnesses"] = total
    rep.extra["well_typed"] = well
    rep.extra["ill_typed"] = total - well
    # ---- W16.proxy + W16.rebind ---------------------------------------------------------------------------------
    proxy_check(wd, pch, meta, table, rep, tier)
    rebind_check(wd, pch, rep)
    cast_check(wd, rep, (1, 2) if tier == "quick" else (1, 2, 3))
    rep.exhaustive = True
    rep.sample(dict(path="array<int,2> const& . rotated() . begin()  -> (*it)[0]", verdict="not writable"))
    for c, pl in list(explained.items())[:3]:
        rep.sample(dict(culprit=c, example=pl[0]))
    return rep


# operations that exist only as const overloads returning read-only views even on a mutable object (frozen after reading
# array_ref.hpp; a new entry appearing here would be a regression of the "mutable twins are writable" clause)
READONLY_OPS = set()
READONLY_EVEN_IF_MUTABLE = set()
MIN_WELL = dict(quick=14000, thorough=500000)


def probe_culprits(wd, pch, minimal, rep):
    """ask clang for the static type (and value category) of the prefix each minimal failing path applies its last op to"""
    out = {}
    lines = ['#include "%s"' % os.path.join(wd, "pre.hpp")]
    idx = {}
    for n, (d, ri, names, pid, expr, kind) in enumerate(minimal):
        # rebuild prefix expression: apply all but the last op
        rt = roots(d)[ri][2]
        pre_expr, last = prefix_expr(d, names)
        e = pre_expr.replace("@", "std::declval<%s>()" % rt)
        lines.append("template<class T> struct Q%d { static_assert(sizeof(T) == 0, \"Q %d\"); }; Q%d<decltype(%s)> q%d;" % (n, n, n, e, n))
        idx[n] = (d, ri, names, last)
    tu = os.path.join(wd, "w16_culprits.cpp")
    with open(tu, "w") as fh:
        fh.write("\n".join(lines) + "\n")
    rc, diags, raw = witness.compile_tu(tu, ["-include-pch", pch])
    for err, notes in witness.group_errors(diags):
        m = re.search(r'"Q (\d+)"', err["msg"])
        if not m:
            continue
        n = int(m.group(1))
        ty = "?"
        for nt in notes:
            mm = re.search(r"template class 'Q%d<(.*)>' requested here" % n, nt["msg"])
            if mm:
                ty = mm.group(1)
        d, ri, names, last = idx[n]
        out[(d, ri, names)] = "%s on %s" % (last, norm_type(ty))
    return out


def prefix_expr(d, names):
    expr, kind = "@", ("V", d)
    last = "<root>"
    for i, nm in enumerate(names):
        for name, tmpl, rk in ops_of(kind, "thorough"):
            if name == nm:
                if i == len(names) - 1:
                    return expr, nm
                expr, kind = tmpl.replace("@", expr), rk
                break
    return expr, last


def norm_type(t):
    t = t.replace("boost::multi::", "")
    t = re.sub(r", layout_t<\d+, long>", "", t)
    t = re.sub(r"\s+", " ", t).strip()
    # dimension-generic culprit: one root cause appears once per dimensionality; value category is kept
    t = re.sub(r"<int, \d+", "<int, D", t)
    return t


def proxy_check(wd, pch, meta, table, rep, tier):
    """distinct proxy types reached by const paths; each must reject assignment / fill / swap / elements()= (own TU each)"""
    lines = ['#include "%s"' % os.path.join(wd, "pre.hpp")]
    n = 0
    seen_expr = set()
    for (d, pid, ri), v in table.items():
        rn, rconst, rt = roots(d)[ri]
        if not rconst or v == -1:
            continue
        names, expr, kind = meta[(d, pid)]
        if kind[0] != "V" or len(names) > 2:
            continue
        e = expr.replace("@", "std::declval<%s>()" % rt)
        if e in seen_expr:
            continue
        seen_expr.add(e)
        lines.append("Probe<decltype(%s)> pr%d;  // %s | %s" % (e, n, rn, ".".join(names)))
        n += 1
    tu = os.path.join(wd, "w16_proxytypes.cpp")
    with open(tu, "w") as fh:
        fh.write("\n".join(lines) + "\n")
    rc, diags, raw = witness.compile_tu(tu, ["-include-pch", pch])
    ptypes = {}
    for err, notes in witness.group_errors(diags):
        if '"PROBE"' not in err["msg"]:
            continue
        for nt in notes:
            mm = re.search(r"template class 'Probe<(.*)>' requested here", nt["msg"])
            if mm:
                ptypes.setdefault(mm.group(1), lines[nt["line"] - 1].split("//")[-1].strip())
    rep.extra["distinct_const_proxy_types"] = len(ptypes)
    rep.need_instances("W16.proxy distinct const proxy types", len(ptypes), 20)
    tests = []
    for ty, origin in sorted(ptypes.items()):
        bare = ty.rstrip("&").strip()
        is_lref = ty.endswith("&") and not ty.endswith("&&")
        dm = re.search(r"<int, (\d+)", ty)
        d = int(dm.group(1)) if dm else 1
        forms = [("prvalue", "std::declval<P>()")] if not is_lref else []
        forms.append(("named", "std::declval<%s&>()" % bare) if not bare.startswith("const ") and not is_lref else ("lvalue", "std::declval<P>()"))
        for fname, fe in forms:
            tests += [
                (ty, origin, "assign-from-array/" + fname, "%s = std::declval<multi::array<int, %d> const&>();" % (fe, d)),
                (ty, origin, "assign-from-view/" + fname, "%s = std::declval<multi::array<int, %d>&>()();" % (fe, d)),
                (ty, origin, "fill/" + fname, "%s.fill(1);" % fe),
                (ty, origin, "swap/" + fname, "using std::swap; swap(%s, std::declval<multi::array<int, %d>&>()());" % (fe, d)),
                (ty, origin, "elements-assign/" + fname, "%s.elements() = std::declval<multi::array<int, %d>&>().elements();" % (fe, d)),
                (ty, origin, "elements-write/" + fname, "%s.elements()[0] = 1;" % fe),
            ]

    def one(t):
        i, (ty, origin, op, stmt) = t
        p = os.path.join(wd, "w16_neg_%d.cpp" % i)
        with open(p, "w") as fh:
            fh.write('#include "%s"\nusing P = %s;\nvoid witness() { %s }\n' % (os.path.join(wd, "pre.hpp"), ty, stmt))
        rc, diags, raw = witness.compile_tu(p, ["-include-pch", pch])
        errs = [d for d in diags if d["kind"] in ("error", "fatal error")]
        return rc, errs
    res = witness.parallel(one, list(enumerate(tests)))
    for (ty, origin, op, stmt), (rc, errs) in zip(tests, res):
        key = "W16.proxy:%s on %s" % (op, norm_type(ty))
        if rc != 0 and errs:
            rep.ok(key, "W16.proxy", dict(stmt=stmt, first_error=errs[0]["msg"][:160]))
        else:
            rep.violated(key, "W16.proxy", "a proxy reached from a const root (%s) accepts `%s`" % (origin, stmt), dict(type=ty, stmt=stmt, origin=origin))
    # positive twins (must compile)
    pos = os.path.join(wd, "w16_pos.cpp")
    with open(pos, "w") as fh:
        fh.write('#include "%s"\n' % os.path.join(wd, "pre.hpp") + r"""
template<int D> void twins(multi::array<int, D>& A, multi::array<int, D> const& B) {
	A() = B; A() = B(); if constexpr(D == 1) { A().fill(1); } using std::swap; swap(A(), A()); A().elements() = B.elements(); A.elements()[0] = 1;
	A.sliced(0, 1) = B.sliced(0, 1); A.rotated() = B.rotated(); A.strided(1) = A.strided(1);
	auto&& v = A(); v = B; if constexpr(D == 1) { v.fill(2); } v.elements() = B.elements();
}
template void twins<1>(multi::array<int, 1>&, multi::array<int, 1> const&);
template void twins<2>(multi::array<int, 2>&, multi::array<int, 2> const&);
template void twins<3>(multi::array<int, 3>&, multi::array<int, 3> const&);
void rows(multi::array<int, 2>& A, multi::array<int, 2> const& B) { A[0] = B[0]; using std::swap; swap(A[0], A[1]); A[0].fill(3); *A.begin() = *B.begin(); }
""")
    rc, diags, raw = witness.compile_tu(pos, ["-include-pch", pch])
    errs = [d for d in diags if d["kind"] in ("error", "fatal error")]
    if rc == 0:
        rep.ok("W16.proxy.positive-twins", "W16.proxy", "mutable views accept assignment, fill, swap, elements()=")
    else:
        rep.violated("W16.proxy.positive-twins", "W16.proxy", "mutable views no longer accept assignment/fill/swap: " + errs[0]["msg"][:200],
                     dict(errors=[e["msg"] for e in errs[:5]]))


def rebind_check(wd, pch, rep):
    tu = os.path.join(wd, "w16_rebind.cpp")
    asserts = []
    for d in (1, 2, 3):
        for t in ("multi::subarray<int, %d>" % d, "multi::const_subarray<int, %d, int*>" % d, "multi::array_ref<int, %d>" % d,
                  "multi::subarray<int, %d, int const*>" % d):
            asserts.append(("copy-construct " + t, "!std::is_copy_constructible_v<%s>" % t))
            asserts.append(("construct-from-lvalue " + t, "!std::is_constructible_v<%s, %s&>" % (t, t)))
        asserts.append(("array_ref default-construct D=%d" % d, "!std::is_default_constructible_v<multi::array_ref<int, %d>>" % d))
        asserts.append(("array_ref move-construct D=%d" % d, "!std::is_move_constructible_v<multi::array_ref<int, %d>>" % d))
        asserts.append(("const_subarray copy-assign D=%d" % d, "!std::is_copy_assignable_v<multi::const_subarray<int, %d, int*>>" % d) if d > 1 else
                       ("const_subarray const copy-assign D=1", "!std::is_assignable_v<multi::const_subarray<int, 1, int*> const&, multi::const_subarray<int, 1, int*> const&>"))
    with open(tu, "w") as fh:
        fh.write('#include "%s"\n' % os.path.join(wd, "pre.hpp"))
        for i, (nm, cond) in enumerate(asserts):
            fh.write('static_assert(%s, "RB %d");\n' % (cond, i))
    rc, diags, raw = witness.compile_tu(tu, ["-include-pch", pch])
    bad = set()
    for err, notes in witness.group_errors(diags):
        m = re.search(r'"RB (\d+)"', err["msg"])
        if m:
            bad.add(int(m.group(1)))
        else:
            rep.break_("rebind witness TU: unexpected error " + err["msg"][:200])
    for i, (nm, cond) in enumerate(asserts):
        key = "W16.rebind:" + nm
        if i in bad:
            rep.violated(key, "W16.rebind", "view/reference type is copyable or rebindable: " + nm, dict(cond=cond))
        else:
            rep.ok(key, "W16.rebind", cond)


# ---------------------------------------------------------------------------------------------------------------
# W16.cast: const propagation through the projection / cast views (view-forming operations that change the element type)
CAST_PRE = r"""
#include <boost/multi/array.hpp>
#include <complex>
#include <type_traits>
#include <utility>
namespace multi = boost::multi;
struct S3 { double x, y, z; };
struct C2 { double re, im; };
using cplx = std::complex<double>;
inline double& gety(S3& s) { return s.y; }
inline double const& getyc(S3 const& s) { return s.y; }
template<class V> auto first_elem(V&& v) -> decltype(auto) {
	if constexpr(std::decay_t<V>::rank_v == 1) { return std::forward<V>(v)[0]; } else { return first_elem(std::forward<V>(v)[0]); }
}
template<class V> using elem_t = decltype(first_elem(std::declval<V>()));
"""

CAST_ROOTS = [
    ("array&", "multi::array<E, D>&", True),
    ("array const&", "multi::array<E, D> const&", False),
    ("array&&", "multi::array<E, D>&&", True),
    ("view held by auto&&", "decltype(std::declval<multi::array<E, D>&>()())&", True),
    ("view of a const array held by auto&&", "decltype(std::declval<multi::array<E, D> const&>()())&", False),
    ("view held by auto const&", "decltype(std::declval<multi::array<E, D>&>()()) const&", False),
    ("temporary view", "decltype(std::declval<multi::array<E, D>&>()())&&", True),
    ("temporary view of a const array", "decltype(std::declval<multi::array<E, D> const&>()())&&", False),
    ("array_ref&", "multi::array_ref<E, D>&", True),
    ("array_ref const&", "multi::array_ref<E, D> const&", False),
]
CAST_OPS = [
    ("member_cast<double>(&S3::y)", "S3", "std::declval<RR>().template member_cast<double>(&S3::y)", "double", None),
    ("reinterpret_array_cast<cplx>()", "C2", "std::declval<RR>().template reinterpret_array_cast<cplx>()", "cplx", None),
    ("reinterpret_array_cast<cplx const>()", "C2", "std::declval<RR>().template reinterpret_array_cast<cplx const>()", "cplx", False),
    ("reinterpret_array_cast<double>(2)", "C2", "std::declval<RR>().template reinterpret_array_cast<double>(2)", "double", None),
    ("element_transformed(f)", "S3", "std::declval<RR>().element_transformed(GETY)", "double", None),
    ("static_array_cast<double const>()", "double", "std::declval<RR>().template static_array_cast<double const>()", "double", False),
]


def cast_check(wd, rep, dims):
    lines = [CAST_PRE]
    idx = {}
    k = 0
    for D in dims:
        for rn, rt, mut in CAST_ROOTS:
            for on, E, expr, vt, force in CAST_OPS:
                k += 1
                rtt = rt.replace("E, D", "%s, %d" % (E, D))
                ex = expr.replace("GETY", "gety" if mut else "getyc")
                lines.append("namespace c%d { using R = %s; template<class RR = R> auto f(int) -> std::integral_constant<int, std::is_assignable_v<elem_t<decltype(%s)>, %s> ? 1 : 0>; "
                             "template<class RR = R> auto f(...) -> std::integral_constant<int, -1>; static_assert(decltype(f<>(0))::value == 99, \"W16C %d\"); }" % (k, rtt, ex, vt, k))
                idx[k] = (D, rn, on, (1 if mut else 0) if force is None else (1 if force else 0), mut)
                if mut:
                    # the projection itself held by const& (auto const& cv = a.element_transformed(f)): read-only whatever the source was
                    k += 1
                    lines.append("namespace c%d { using R = %s; template<class RR = R> auto f(int) -> std::integral_constant<int, std::is_assignable_v<elem_t<std::add_lvalue_reference_t<std::add_const_t<std::remove_reference_t<decltype(%s)>>>>, %s> ? 1 : 0>; "
                                 "template<class RR = R> auto f(...) -> std::integral_constant<int, -1>; static_assert(decltype(f<>(0))::value == 99, \"W16C %d\"); }" % (k, rtt, ex, vt, k))
                    idx[k] = (D, rn, on + " held by auto const&", 0, False)
    tu = os.path.join(wd, "casts.cpp")
    with open(tu, "w") as fh:
        fh.write("\n".join(lines) + "\n")
    rc, diags, raw = witness.compile_tu(tu)
    got = {}
    for e, notes in witness.group_errors(diags):
        m = re.search(r"integral_constant<int, (-?\d+)>::value == 99' \"W16C (\d+)\"", e["msg"])
        if m:
            got[int(m.group(2))] = int(m.group(1))
        else:
            rep.break_("W16.cast witness TU: " + e["msg"][:160])
    bad = {}
    n = 0
    for k, (D, rn, on, want, mut) in idx.items():
        v = got.get(k)
        if v is None:
            rep.break_("W16.cast witness %d produced no verdict" % k)
            continue
        if v == -1:
            continue            # the cast does not exist for this root (ill-formed): nothing is yielded
        n += 1
        if v == want:
            rep.ok("W16.cast#%d" % k, "W16.cast", None)
        elif want == 0:
            # culprit: the cast applied to this kind of root (dimension normalised)
            bad.setdefault(("W16.cast:%s on %s" % (on, rn)), []).append("D=%d" % D)
        else:
            bad.setdefault(("W16.castmut:%s on %s" % (on, rn)), []).append("D=%d" % D)
    for key, ds in sorted(bad.items()):
        if key.startswith("W16.cast:"):
            rep.violated(key, "W16.cast", "%s (%s) yields a modifiable element reference although the source is const / read-only" % (key[9:], ", ".join(ds)), dict(dims=ds))
        else:
            rep.violated(key, "W16.cast", "%s (%s) of a mutable source yields a read-only element" % (key[12:], ", ".join(ds)), dict(dims=ds))
    # W16.arrow: member access through 1-D iterators (it->member) of class-type elements
    arrows = [
        ("array<S3,1> const& .begin()", "std::declval<multi::array<S3, 1> const&>().begin()", 0),
        ("array<S3,1>& .cbegin()", "std::declval<multi::array<S3, 1>&>().cbegin()", 0),
        ("array<S3,1>& .begin()", "std::declval<multi::array<S3, 1>&>().begin()", 1),
        ("array<S3,2> const& [0].begin()", "std::declval<multi::array<S3, 2> const&>()[0].begin()", 0),
        ("array<S3,2>& [0].cbegin()", "std::declval<multi::array<S3, 2>&>()[0].cbegin()", 0),
        ("array<S3,2>& [0].begin()", "std::declval<multi::array<S3, 2>&>()[0].begin()", 1),
        ("array<S3,3> const& [0][0].end()", "std::declval<multi::array<S3, 3> const&>()[0][0].end()", 0),
        ("array_ref<S3,1> const& .begin()", "std::declval<multi::array_ref<S3, 1> const&>().begin()", 0),
        ("view of a const array<S3,2> .rotated()[0].begin()", "std::declval<multi::array<S3, 2> const&>().rotated()[0].begin()", 0),
        ("const& view of array<S3,1> .begin()", "std::declval<decltype(std::declval<multi::array<S3, 1>&>()()) const&>().begin()", 0),
    ]
    alines = [CAST_PRE]
    for k2, (nm, ex, want) in enumerate(arrows):
        alines.append("namespace a%d { template<class = void> auto f(int) -> std::integral_constant<int, std::is_assignable_v<decltype(((%s)->y)), double> ? 1 : 0>; "
                      "template<class = void> auto f(...) -> std::integral_constant<int, -1>; static_assert(decltype(f<>(0))::value == 99, \"W16A %d\"); }" % (k2, ex, k2))
    tu2 = os.path.join(wd, "arrows.cpp")
    with open(tu2, "w") as fh:
        fh.write("\n".join(alines) + "\n")
    rc2, diags2, raw2 = witness.compile_tu(tu2)
    got2 = {}
    for e, notes in witness.group_errors(diags2):
        m = re.search(r"integral_constant<int, (-?\d+)>::value == 99' \"W16A (\d+)\"", e["msg"])
        if m:
            got2[int(m.group(2))] = int(m.group(1))
        else:
            rep.break_("W16.arrow witness TU: " + e["msg"][:160])
    narrow = 0
    for k2, (nm, ex, want) in enumerate(arrows):
        v = got2.get(k2)
        if v is None or v == -1:
            rep.break_("W16.arrow witness for %s produced no verdict (%r)" % (nm, v))
            continue
        narrow += 1
        if v == want:
            rep.ok("W16.arrow:%s" % nm, "W16.arrow", None)
        elif want == 0:
            rep.violated("W16.arrow:it->member on %s" % nm, "W16.arrow", "it->member through %s is assignable although the source is const / read-only" % nm, dict())
        else:
            rep.violated("W16.arrowmut:it->member on %s" % nm, "W16.arrow", "it->member through %s of a mutable source is read-only" % nm, dict())
    rep.need_instances("W16.arrow witnesses", narrow, 10)
    rep.need_instances("W16.cast well-formed (cast, root, D)", n, 150 if len(dims) == 2 else 225)

"""C20 — debug contracts: assertions silent on valid use, fire on out-of-range access, NDEBUG changes nothing observable.

R20.bounds  in every element-access / slicing primitive (assertion-enabled unoptimised IR) every variable-index pointer arithmetic on the
            element pointer and every return is dominated by the passing edge of an assertion whose condition depends on a parameter
R20.extent  every assignment-through-view path that reaches element assignment has passed an extents / size comparison of the two operands
            whose failing sibling path ends in the assertion handler before any element is written
R20.diff    for every owning-array / view operation the abstract event traces of the normal paths are identical with assertions enabled,
            with -DNDEBUG, and with -DBOOST_MULTI_ASSERT_DISABLE (assertion conditions have no observable effect)
R20.ndebug  no preprocessor conditional in the core headers depends on NDEBUG / BOOST_MULTI_ASSERT_DISABLE except the macro definition
O20.silent  with assertions enabled, element access / slicing on an in-domain symbolic index reaches no assertion handler and computes the
            same closed form;  O20.fires: with an index beyond the extension the handler is reached on every path
"""
import os
import re

from vlib import common, ir0, absint, ownrules, owning, viewops, viewspec as vs, irval, typestate
from vlib.poly import Poly as P, POS, NONNEG, NONZERO

A = viewops.A

ACCESS = [
    # (regex on the short demangled name, minimum number of instantiations expected per module)
    r"^(?:\S+ )?const_subarray::operator\[\]\(long\) const &$",
    r"^(?:\S+ )?const_subarray::at_aux_\(long\) const$",
    r"^(?:\S+ )?const_subarray::sliced_aux_\(long, long\) const$",      # D > 1 only (the 1-D overload is not among the asserted anchors)
    r"^(?:\S+ )?const_subarray::taked_aux_\(long\) const$",
    r"^(?:\S+ )?const_subarray::dropped_aux_\(long\) const$",
    r"^(?:\S+ )?const_subarray::partitioned_aux_\(long\) const$",
    r"^(?:\S+ )?const_subarray::chunked_aux_\(long\) const$",
    r"^(?:\S+ )?const_subarray::elements_at\(long\)",
]


def dominators(f):
    preds = {l: set() for l in f.order}
    succ = {}
    for l in f.order:
        s = []
        for ins in f.blocks[l]:
            if ins.op in ("br", "switch") and ins.targets:
                s += ins.targets
            if ins.op == "invoke":
                s += [ins.normal, ins.unwind]
        succ[l] = [x for x in s if x in f.blocks]
        for x in succ[l]:
            preds[x].add(l)
    reach, todo = set(), ["entry"]
    while todo:
        x = todo.pop()
        if x in reach:
            continue
        reach.add(x)
        todo += succ[x]
    for l in f.order:
        preds[l] = {p for p in preds[l] if p in reach}
    dom = {l: set(f.order) for l in f.order}
    dom["entry"] = {"entry"}
    changed = True
    while changed:
        changed = False
        for l in f.order:
            if l == "entry":
                continue
            ps = [dom[p] for p in preds[l]]
            new = (set.intersection(*ps) if ps else set()) | {l}
            if new != dom[l]:
                dom[l] = new
                changed = True
    return dom, succ, preds


def assert_edges(f, succ):
    """(branch block, passing successor, condition value) for branches one of whose successors only leads to __assert_fail"""
    fails = set()
    for l in f.order:
        if any(i.op == "call" and i.callee == "__assert_fail" for i in f.blocks[l]):
            fails.add(l)
    out = []
    for l in f.order:
        for ins in f.blocks[l]:
            if ins.op == "br" and ins.cond and ins.targets and len(ins.targets) == 2:
                a, b = ins.targets
                if a in fails and b not in fails:
                    out.append((l, b, ins.cond))
                elif b in fails and a not in fails:
                    out.append((l, a, ins.cond))
    return out, fails


def depends_on_param(f, val, depth=0, seen=None):
    """does SSA value `val` depend (data flow, through calls' arguments, loads of locals) on a non-this parameter?"""
    seen = seen if seen is not None else set()
    if val in seen or depth > 60:
        return False
    seen.add(val)
    pnames = [p[0] for p in f.params]
    if val in pnames:
        # parameters after `this` (the first non-sret parameter)
        first = 1 if (f.params and f.params[0][2]) else 0
        return pnames.index(val) > first
    for l in f.order:
        for ins in f.blocks[l]:
            if ins.dst == val:
                ops = []
                if ins.args:
                    ops += ins.args
                for x in (ins.ptr, ins.val, ins.cond):
                    if x:
                        ops.append(x)
                if ins.arms:
                    ops += [a[0].strip() for a in ins.arms]
                    # control dependence: which arm is taken is decided by the conditional branches of the predecessor blocks
                    front, seenb = [a[1].strip() for a in ins.arms], set()
                    for _ in range(4):
                        nxt = []
                        for b in front:
                            if b in seenb or b not in f.blocks:
                                continue
                            seenb.add(b)
                            for i2 in f.blocks[b]:
                                if i2.op == "br" and i2.cond:
                                    ops.append(i2.cond)
                            for l2 in f.order:
                                for i2 in f.blocks[l2]:
                                    if i2.op in ("br", "switch") and i2.targets and b in i2.targets:
                                        nxt.append(l2)
                                        if i2.cond:
                                            ops.append(i2.cond)
                        front = nxt
                if ins.idx:
                    ops += ins.idx
                if ins.op == "alloca":
                    # a local whose address is passed on: what was stored into it
                    for l2 in f.order:
                        for i2 in f.blocks[l2]:
                            if i2.op == "store" and i2.ptr == val:
                                ops.append(i2.val)
                            if i2.op in ("call", "invoke") and i2.args and val in i2.args and i2.argtys and "sret(" in i2.argtys[0] and i2.args[0] == val:
                                ops += [a for a in i2.args[1:]]
                # loads from an alloca: look at stores into it
                if ins.op == "load" and ins.ptr:
                    for l2 in f.order:
                        for i2 in f.blocks[l2]:
                            if i2.op == "store" and i2.ptr == ins.ptr:
                                ops.append(i2.val)
                            if i2.op in ("call", "invoke") and i2.args and ins.ptr in i2.args:
                                ops += [a for a in i2.args if a != ins.ptr]
                return any(depends_on_param(f, o, depth + 1, seen) for o in ops if isinstance(o, str) and o.startswith("%"))
    return False


def bounds_rule(rep, mod, tag, elem_ty):
    found = {}
    for name, f in mod.funcs.items():
        sh = absint.short(f.demangled)
        for rx in ACCESS:
            if re.search(rx, sh):
                found.setdefault(rx, []).append(f)
    n = 0
    for rx in ACCESS:
        fl = found.get(rx, [])
        for f in fl:
            n += 1
            sh = absint.short(f.demangled)
            D = re.search(r"const_subarray<[^,]+, (\d)", f.demangled) or re.search(r"layout_t<(\d)", f.demangled)
            key = "R20.bounds@%s" % re.sub(r"^(?:\S+ )?", "", sh, count=1) if " " in sh.split("(")[0] else "R20.bounds@%s" % sh
            key = key + ("<D=%s>" % D.group(1) if D else "")
            if "sliced_aux_" in sh and D and D.group(1) == "1":
                n -= 1
                continue
            dom, succ, preds = dominators(f)
            edges, fails = assert_edges(f, succ)
            edges = [(l, ok, c) for l, ok, c in edges if depends_on_param(f, c)]
            bad = []
            passed = {ok for l, ok, c in edges}
            # delegation: a call to a callee that itself asserts on a forwarded parameter before returning guards everything it dominates
            pn = [p[0] for p in f.params][1:]
            for l in f.order:
                for ins in f.blocks[l]:
                    if ins.op in ("call", "invoke") and ins.callee in mod.funcs and any(a in pn for a in (ins.args or [])):
                        g = mod.funcs[ins.callee]
                        gd, gs, gp = dominators(g)
                        ge, gf = assert_edges(g, gs)
                        ge = [(l2, ok, c) for l2, ok, c in ge if depends_on_param(g, c)]
                        gpass = {ok for l2, ok, c in ge}
                        if ge and all((gd[l2] & gpass) for l2 in g.order if l2 not in gf and any(i.op == "ret" for i in g.blocks[l2])):
                            passed.add(l)
            if not passed:
                bad.append("no assertion whose condition depends on a parameter")
            else:
                for l in f.order:
                    if l in fails:
                        continue
                    for ins in f.blocks[l]:
                        if ins.op == "ret" and not (dom[l] & passed):
                            bad.append("a return is reachable without passing an assertion")
                        if ins.op == "getelementptr" and ins.srcty.strip() == elem_ty and ins.idx and not re.match(r"^-?\d+$", ins.idx[0]):
                            if not (dom[l] & passed):
                                bad.append("element pointer arithmetic is not dominated by a passed assertion")
            if bad:
                rep.violated(key, "R20.bounds", "%s (%s): %s" % (sh[:100], tag, sorted(set(bad))), dict(function=f.demangled, problems=sorted(set(bad))))
            else:
                rep.ok(key + "#" + tag, "R20.bounds", dict(assertions=len(edges)))
    return n


ACC_DRIVER = r"""
#include <boost/multi/array.hpp>
namespace multi = boost::multi;
template<int D> void acc(multi::subarray<double, D>& v, long i, long a, long b, long n, double* out) {
	auto&& e = v[i]; (void)e;
	auto const& cv = v; auto&& ce = cv[i]; (void)ce;
	auto&& s = v.sliced(a, b); (void)s;
	auto&& t = v.taked(n); (void)t;
	auto&& d = v.dropped(n); (void)d;
	auto&& p = v.partitioned(n); (void)p;
	auto&& c = v.chunked(n); (void)c;
	out[0] = v.elements()[n];
	out[1] = cv.elements_at(n);
	if constexpr(D > 1) { auto&& cs = cv.sliced(a, b); (void)cs; }
}
template void acc<1>(multi::subarray<double, 1>&, long, long, long, long, double*);
template void acc<2>(multi::subarray<double, 2>&, long, long, long, long, double*);
template void acc<3>(multi::subarray<double, 3>&, long, long, long, long, double*);
"""


def access_module(wd):
    src = os.path.join(wd, "acc.cpp")
    with open(src, "w") as fh:
        fh.write(ACC_DRIVER)
    text = ir0.emit_o0(src, src[:-4] + ".ll", defines=("-UNDEBUG",))
    mod = ir0.parse(text)
    ir0.demangle_all(mod)
    return mod


# assignments implemented as one flat copy over the operands' storage: equal element counts already exclude any out-of-bounds access, so a size
# comparison (array_ref's own assertion compares num_elements()) is accepted in place of an extents comparison
FLAT_ASSIGN = ("view_elements_assign", "view_elements_assign_same", "ref_assign_ref", "ref_move_assign", "rvalue_ref_move_assign")


def norm_events(r):
    out = []
    for e in r["events"]:
        if e[0] in ("alloc", "dealloc", "construct", "destroy", "assign", "compare"):
            out.append((e[0], e[1] if e[0] != "alloc" else "alloc"))
        elif e[0] in ("write", "writeblk"):
            reg = e[1]
            out.append((e[0], reg[0], reg[1] if reg[0] == "param" else None, e[2]))
    return tuple(out)


def run(tier):
    rep = common.Report("C20", tier, "other",
                        "one obligation per access primitive (dominance), per view-assignment operation (extents assertion), per operation (trace equality across "
                        "the three assertion configurations), per symbolic in-domain / out-of-domain access (engine L) and one for the preprocessor scan")
    wd = common.workdir("own")
    dims = (1, 2) if tier == "quick" else (1, 2, 3)
    nb = bounds_rule(rep, access_module(common.workdir("c20")), "D=1..3", "double")
    rep.units.add("acc.cpp")
    for D in dims:
        tag = "D=%d" % D
        dbg = ownrules.module(wd, D, prelude="#undef NDEBUG\n#define VERIF_ASSERTS 1", tag="D%d_dbg" % D)
        # R20.extent + R20.diff
        res_dbg = {}
        for n in dbg.ops:
            if dbg.ops[n].get("only") == "ctl":
                continue          # control operations of other rules (deliberate misuse written in the driver)
            try:
                res_dbg[n] = owning_traces(dbg, n)
            except absint.Limit as e:
                rep.inconclusive("R20.trace:%s#%s" % (n, tag), "R20.trace", str(e))
        ndb = ownrules.module(wd, D)
        dis = ownrules.module(wd, D, prelude="#undef NDEBUG\n#define BOOST_MULTI_ASSERT_DISABLE 1", tag="D%d_dis" % D)
        for n in dbg.ops:
            if n not in res_dbg:
                continue
            key = "R20.diff@%s" % n
            try:
                a = sorted({norm_events(r) for r in res_dbg[n] if r["outcome"] == "ret"})
                b = sorted({norm_events(r) for r in owning_traces(ndb, n) if r["outcome"] == "ret"})
                c = sorted({norm_events(r) for r in owning_traces(dis, n) if r["outcome"] == "ret"})
            except absint.Limit as e:
                rep.inconclusive(key + "#" + tag, "R20.diff", str(e))
                continue
            if a == b == c:
                rep.ok(key + "#" + tag, "R20.diff", dict(normal_paths=len(a)))
            else:
                which = "NDEBUG" if a != b else "BOOST_MULTI_ASSERT_DISABLE"
                rep.violated(key, "R20.diff", "%s (%s): the observable event traces of the normal paths differ between the assertion-enabled build and the %s build" % (dbg.ops[n]["body"], tag, which),
                             dict(enabled=[list(x) for x in a][:3], other=[list(x) for x in (b if a != b else c)][:3]))
        for n, traces in res_dbg.items():
            op = dbg.ops[n]
            if op["kind"] != "view" or n in ("view_fill",):
                continue
            key = "R20.extent@%s" % n
            ok_paths = [r for r in traces if r["outcome"] == "ret" and any(e[0] == "assign" for e in r["events"])]
            fail_paths = [r for r in traces if r["outcome"] == "terminate" and any(e[0] == "terminate" and e[1] == "__assert_fail" for e in r["events"])]
            bad = []
            if not ok_paths:
                bad.append("no assigning path")
            for r in ok_paths:
                atoms = [(c, v) for c, v in r["pc"].items() if is_extent_atom(c, shape=n not in FLAT_ASSIGN, flat_multi=(n in FLAT_ASSIGN and D > 1))]
                if not any(v for c, v in atoms):
                    bad.append("an assigning path has not passed an extents / size comparison of the operands")
                    continue
                if n not in FLAT_ASSIGN and D > 1:
                    # extents in EVERY dimension: one comparison of whole extensions, or one single-dimension comparison per level (a row-by-row recursion);
                    # the leading extension together with the element count does not fix the inner extents (2x3x4 vs 2x4x3, or other inner index bases)
                    whole = [c for c, v in atoms if v and re.search(r"operator[=!]=\(extensions_t|extensions_t::operator[=!]=", repr(c))]
                    single = {repr(c) for c, v in atoms if v and not re.search(r"operator[=!]=\(extensions_t|extensions_t::operator[=!]=", repr(c))}
                    if not whole and len(single) < D:
                        bad.append("an assigning path compares the extents of %d of the %d dimensions only (the leading extension and the element count do not fix the others)"
                                   % (len(single), D))
                        continue
                guarded = False
                for c, v in atoms:
                    if not v:
                        continue
                    for fr in fail_paths:
                        if fr["pc"].get(c) is False and not any(e[0] == "assign" for e in fr["events"]):
                            guarded = True
                if not guarded:
                    bad.append("the failing side of the extents comparison does not end in the assertion handler before element writes")
            if bad:
                rep.violated(key, "R20.extent", "%s (%s): %s" % (op["body"], tag, sorted(set(bad))), dict(op=n, problems=sorted(set(bad))))
            else:
                rep.ok(key + "#" + tag, "R20.extent", None)
    rep.need_instances("R20.bounds access primitives", nb, 20)
    # R20.ndebug : preprocessor scan of the core headers
    hits = []
    for root, dirs, files in os.walk(os.path.join(common.INCLUDE, "boost", "multi")):
        if "/adaptors" in root:
            continue
        for fn in files:
            p = os.path.join(root, fn)
            for i, line in enumerate(open(p, errors="replace"), 1):
                s = line.strip()
                if s.startswith("//"):
                    continue
                if re.match(r"^#\s*(if|ifdef|ifndef|elif)\b.*\b(NDEBUG|BOOST_MULTI_ASSERT_DISABLE)\b", s):
                    if p.endswith("detail/config/ASSERT.hpp"):
                        continue
                    hits.append("%s:%d: %s" % (common.rel(p), i, s[:80]))
    if hits:
        rep.violated("R20.ndebug", "R20.ndebug", "code other than the assertion macro depends on NDEBUG / BOOST_MULTI_ASSERT_DISABLE: %s" % hits[0], dict(sites=hits))
    else:
        rep.ok("R20.ndebug", "R20.ndebug", "no NDEBUG-conditional code in the core headers besides detail/config/ASSERT.hpp")
    silent(rep, tier)
    rep.explanation = ("Dominance on the CFG of the assertion-enabled unoptimised IR (R20.bounds), abstract-interpretation traces compared across the three "
                       "assertion configurations (R20.diff, R20.extent), a preprocessor scan, and the polynomial evaluation of assertion-enabled -O2 IR on "
                       "in-domain and out-of-domain symbolic indices (O20). Not decided: silence of every assertion for every valid program (undecidable in "
                       "general; the layout layer and the owning-array operations are covered).")
    rep.trusted = ["clang 14 IR generation", "vlib/ir0.py, vlib/absint.py, vlib/irval.py", "glibc assert macro expands to a call of __assert_fail"]
    return rep


def is_extent_atom(c, shape=False, flat_multi=False):
    s = repr(c)
    t = typestate.strip(c)
    if isinstance(t, tuple) and len(t) == 3 and t[0] == "call" and len(t[2]) == 2 and t[2][0] == t[2][1]:
        return False       # comparison of an object with itself
    if isinstance(t, tuple) and len(t) == 4 and t[0] == "cmp" and t[2] == t[3]:
        return False
    if shape:
        return bool(re.search(r"operator[=!]=\((range|extensions_t|extension_t)|extensions_t::operator[=!]=", s))
    if flat_multi:
        # a flat copy of num_elements() items of a D > 1 operand: only a comparison over all dimensions (whole extensions or element counts) bounds it;
        # equality of the leading extension alone does not
        return bool(re.search(r"operator[=!]=\(extensions_t|extensions_t::operator[=!]=|num_elements", s))
    return bool(re.search(r"operator[=!]=\((range|extensions_t|extension_t)|extensions_t::operator[=!]=|layout_t::(size|num_elements)\(\)|extensions_t::num_elements", s))


_tr = {}


def owning_traces(mod, n):
    k = (id(mod), n)
    if k not in _tr:
        _tr[k] = owning.analyse_op(mod, n, keep_assert_paths=True)
    return _tr[k]


def silent(rep, tier):
    """engine L on the assertion-enabled -O2 IR: in-domain accesses reach no handler, out-of-domain ones always do"""
    wd = common.workdir("c20")
    cr = viewops.CustomRun(rep, "C20", True, wd, "dbg")
    # D = 1 only: for D > 1 the assertion-enabled -O2 IR keeps the intermediate sub-view objects in memory (not scalar-replaced)
    for D in (1,):
        v = vs.root(D, True)
        idx = ["i%d" % k for k in range(D)]
        chain = "".join("[%s]" % i for i in idx)
        ii = ", ".join(idx)
        # in domain: i_k = r_k, z_k = r_k + 1 + t_k
        env_in = {}
        signs = {}
        for k in range(D):
            env_in["i%d" % k] = A("r%d" % k)
            env_in["z%d" % k] = A("r%d" % k) + 1 + A("t%d" % k)
            signs["r%d" % k] = NONNEG
            signs["t%d" % k] = NONNEG
            signs["s%d" % k] = POS
        want = v.subst(env_in).addr([A("r%d" % k) for k in range(D)]) * viewops.ELEM
        cr.add("O20.silent.brackets(D=%d)" % D, "O20.silent", D, idx, "out[0] = eaddr(v%s, base); out[1] = eaddr(v(%s), base);" % (chain, ii),
               {(0, "brackets"): want, (1, "call"): want}, cases=[dict(env_in, __signs=signs)])
        # sliced in domain: a = ra, w = 1 + u, z0 = ra + 1 + u + t
        env_s = dict(env_in)
        env_s.update({"a": A("ra"), "w": 1 + A("u"), "z0": A("ra") + 1 + A("u") + A("tt"), "i0": A("q")})
        sg = dict(signs)
        sg.update({"ra": NONNEG, "u": NONNEG, "tt": NONNEG, "q": NONNEG})
        vv = vs.root(D, True).subst(env_s)
        w = vs.sliced(vv, A("ra"), 1 + A("u"))
        rest = [A("r%d" % k) for k in range(1, D)]
        rest_idx = "".join("[i%d]" % k for k in range(1, D))
        cr.add("O20.silent.sliced(D=%d)" % D, "O20.silent", D, idx + ["a", "w"], "auto&& s = v.sliced(a, a + w); out[0] = s.size(); out[1] = eaddr(s[0]%s, base);" % rest_idx,
               {(0, "size"): 1 + A("u"), (1, "first element"): w.addr([P.const(0)] + rest) * viewops.ELEM}, cases=[dict(env_s, __signs=sg)])
        # empty slices are valid anywhere in [0, size]: at the beginning, in the interior and at the end
        for nm, a_, z_ in (("empty at the beginning", P.const(0), 1 + A("tt")), ("empty inside", 1 + A("ra"), 2 + A("ra") + A("tt")), ("empty at the end", 1 + A("ra"), 1 + A("ra")),
                           ("empty slice of an empty view", P.const(0), P.const(0))):
            env_e = dict(env_in)
            env_e.update({"a": a_, "w": P.const(0), "z0": z_})
            cr.add("O20.silent.sliced(D=%d,%s)" % (D, nm), "O20.silent", D, idx + ["a", "w"], "auto&& s = v.sliced(a, a + w); out[0] = s.size(); out[1] = s.is_empty();",
                   {(0, "size"): P.const(0), (1, "is_empty"): P.const(1)}, cases=[dict(env_e, __signs=sg)])
        # out of domain: i0 = z0 + r  (beyond the end) and i0 = -1 - r (before the beginning)
        for nm, i0 in (("beyond", 1 + A("t0") + A("r")), ("before", -1 - A("r"))):
            env_o = dict(env_in)
            env_o["i0"] = i0
            env_o["z0"] = 1 + A("t0")
            sg2 = dict(signs)
            sg2["r"] = NONNEG
            cr.add("O20.fires.%s(D=%d)" % (nm, D), "O20.fires", D, idx, "out[0] = eaddr(v%s, base);" % chain, {(0, "must-assert"): P.const(0)},
                   cases=[dict(env_o, __signs=sg2, __expect_assert=True)])
    # D = 2, 3: slicing alone (one result view, no chained sub-view temporaries)
    for D in (2, 3):
        env2, sg2 = {}, {}
        for k in range(D):
            sg2["s%d" % k] = POS
            sg2["t%d" % k] = NONNEG
            if k:
                env2["z%d" % k] = 1 + A("t%d" % k)
        sg2.update({"ra": NONNEG, "u": NONNEG, "tt": NONNEG})
        for nm, a_, w_, z_ in (("non-empty", A("ra"), 1 + A("u"), A("ra") + 1 + A("u") + A("tt")), ("empty at the beginning", P.const(0), P.const(0), 1 + A("tt")),
                               ("empty inside", 1 + A("ra"), P.const(0), 2 + A("ra") + A("tt")), ("empty at the end", 1 + A("ra"), P.const(0), 1 + A("ra")),
                               ("empty slice of an empty view", P.const(0), P.const(0), P.const(0))):
            env_e = dict(env2)
            env_e.update({"a": a_, "w": w_, "z0": z_})
            cr.add("O20.silent.sliced(D=%d,%s)" % (D, nm), "O20.silent", D, ["a", "w"], "auto&& s = v.sliced(a, a + w); out[0] = s.size();",
                   {(0, "size"): w_}, cases=[dict(env_e, __signs=sg2)])
        # indexing a D > 1 view (mutable and const overloads): in domain silent, one past the end / beyond / before must reach the handler
        for cv, vexpr in (("mutable", "v"), ("const", "std::as_const(v)")):
            env_i = dict(env2)
            env_i.update({"i0": A("ra"), "z0": A("ra") + 1 + A("tt")})
            cr.add("O20.silent.index(D=%d,%s)" % (D, cv), "O20.silent", D, ["i0"], "out[0] = %s[i0].size();" % vexpr, {(0, "size of the sub-view"): env2["z1"]},
                   cases=[dict(env_i, __signs=sg2)])
            for nm, i0, z0 in (("one past the end", 1 + A("tt"), 1 + A("tt")), ("beyond", 2 + A("tt") + A("ra"), 1 + A("tt")), ("before", -1 - A("ra"), 1 + A("tt"))):
                env_x = dict(env2)
                env_x.update({"i0": i0, "z0": z0})
                cr.add("O20.fires.index-%s(D=%d,%s)" % (nm, D, cv), "O20.fires", D, ["i0"], "out[0] = %s[i0].size();" % vexpr, {(0, "must-assert"): P.const(0)},
                       cases=[dict(env_x, __signs=sg2, __expect_assert=True)])
        # out of domain: the slice ends beyond the extension
        env_o = dict(env2)
        env_o.update({"a": A("ra"), "w": 2 + A("u") + A("tt"), "z0": A("ra") + 1 + A("u")})
        cr.add("O20.fires.sliced-beyond(D=%d)" % D, "O20.fires", D, ["a", "w"], "auto&& s = v.sliced(a, a + w); out[0] = s.size();", {(0, "must-assert"): P.const(0)},
               cases=[dict(env_o, __signs=sg2, __expect_assert=True)])
        # out of domain: a non-empty request that starts beyond the extension, written in decreasing order (eighth seed round: the "empty slices are
        # allowed anywhere" escape of the bound assertions was widened to every decreasing pair)
        env_r = dict(env2)
        env_r.update({"a": 2 + A("tt") + A("ra"), "w": -1 - A("u"), "z0": 1 + A("tt")})
        cr.add("O20.fires.sliced-reversed-beyond(D=%d)" % D, "O20.fires", D, ["a", "w"], "auto&& s = v.sliced(a, a + w); out[0] = s.size();", {(0, "must-assert"): P.const(0)},
               cases=[dict(env_r, __signs=sg2, __expect_assert=True)])
    # taked(n) / dropped(n), D = 1 and 2: a count within [0, size] is silent and gives the stated size, a count beyond the size must reach the handler
    for D in (1, 2):
        envc, sgc = {}, {"ra": NONNEG, "u": NONNEG, "tt": NONNEG}
        for k in range(D):
            sgc["s%d" % k] = POS
            if k:
                envc["z%d" % k] = 1 + A("t%d" % k)
                sgc["t%d" % k] = NONNEG
        for opn, size_of in (("taked", lambda a_, z_: a_), ("dropped", lambda a_, z_: z_ - a_)):
            env_s = dict(envc)
            env_s.update({"a": A("ra"), "z0": A("ra") + A("tt")})
            cr.add("O20.silent.%s(D=%d)" % (opn, D), "O20.silent", D, ["a"], "auto&& s = v.%s(a); out[0] = s.size();" % opn,
                   {(0, "size"): size_of(A("ra"), A("ra") + A("tt"))}, cases=[dict(env_s, __signs=sgc)])
            env_f = dict(envc)
            env_f.update({"a": A("tt") + 1 + A("u"), "z0": A("tt")})
            cr.add("O20.fires.%s-beyond(D=%d)" % (opn, D), "O20.fires", D, ["a"], "auto&& s = v.%s(a); out[0] = s.size();" % opn, {(0, "must-assert"): P.const(0)},
                   cases=[dict(env_f, __signs=sgc, __expect_assert=True)])
    # flat element range of a 2-D view, row-major and column-major (transposed) with padding: every position 0 <= a < size can be reached by +=, by
    # -= from the end, by [] and by the range's own [] without an assertion (the position a lies in the first row: z1 = a + 1 + t, so a < size whatever
    # z0; in a column-major layout the leading dimension's element span is smaller than size: a test against it instead of num_elements() fires)
    for lay, senv in (("row-major", {"s1": P.const(1), "s0": lambda z0, z1: z1 + A("p")}), ("column-major", {"s0": P.const(1), "s1": lambda z0, z1: z0 + A("p")})):
        z0, z1 = 1 + A("y0"), A("a") + 1 + A("tt")
        envf = {"z0": z0, "z1": z1}
        for k_, v_ in senv.items():
            envf[k_] = v_(z0, z1) if callable(v_) else v_
        sgf = {"y0": NONNEG, "a": NONNEG, "tt": NONNEG, "p": NONNEG}
        vf = vs.root(2, True).subst(envf)
        at = vf.addr([P.const(0), A("a")]) * viewops.ELEM
        cr.add("O20.silent.flat(D=2,%s)" % lay, "O20.silent", 2, ["a"],
               "auto&& es = v.elements(); { auto it = es.begin(); it += a; out[0] = eaddr(*it, base); } { auto it = es.end(); it -= (es.size() - a); out[1] = eaddr(*it, base); } "
               "out[2] = eaddr(es.begin()[a], base); out[3] = eaddr(es[a], base); { auto it = es.begin() + a; out[4] = it - es.begin(); }",
               {(0, "begin+=a"): at, (1, "end-=(size-a)"): at, (2, "begin[a]"): at, (3, "elements()[a]"): at, (4, "position"): A("a")},
               cases=[dict(envf, __signs=sgf)])
    cr.compile(nshards=4, defines=("-UNDEBUG", "-mllvm", "-inline-threshold=1000000"))
    check_expect(cr, rep)
    # element access of a 1-D view whose index base is not zero: the assertion is about the extension [f, f + size), not about [0, size)
    crf = viewops.CustomRun(rep, "C20", False, wd, "dbgfb")
    for bn, f0 in (("positive base", 1 + A("g")), ("negative base", -1 - A("g"))):
        sg = {"g": NONNEG, "r": NONNEG, "t": NONNEG, "s0": POS}
        env_in = {"f0": f0, "i0": f0 + A("r"), "z0": A("r") + 1 + A("t")}
        want = vs.root(1, False).subst(env_in).addr([f0 + A("r")]) * viewops.ELEM
        crf.add("O20.silent.brackets(D=1,%s)" % bn, "O20.silent", 1, ["i0"], "out[0] = eaddr(v[i0], base);", {(0, "brackets"): want}, cases=[dict(env_in, __signs=sg)])
        for nm, i0 in (("beyond", f0 + 1 + A("t") + A("r")), ("before", f0 - 1 - A("r"))):
            env_o = {"f0": f0, "i0": i0, "z0": 1 + A("t")}
            crf.add("O20.fires.%s(D=1,%s)" % (nm, bn), "O20.fires", 1, ["i0"], "out[0] = eaddr(v[i0], base);", {(0, "must-assert"): P.const(0)},
                    cases=[dict(env_o, __signs=sg, __expect_assert=True)])
        # slicing a view whose index base is not zero: valid slices [a, a + w) inside [f, f + size) are silent (incl. the slice up to the end)
        for D2 in (1, 2):
            for nm, a_, w_, z_ in (("inside", f0 + A("r"), 1 + A("u"), A("r") + 1 + A("u") + 1 + A("t")), ("up to the end", f0 + A("r"), 1 + A("u"), A("r") + 1 + A("u")),
                                   ("from the beginning", f0, 1 + A("u"), 1 + A("u") + A("t"))):
                env_s = {"f0": f0, "a": a_, "w": w_, "z0": z_}
                sgs = dict(sg)
                sgs["u"] = NONNEG
                for k in range(1, D2):
                    env_s["z%d" % k] = 1 + A("t%d" % k)
                    sgs["t%d" % k] = NONNEG
                    sgs["s%d" % k] = POS
                crf.add("O20.silent.sliced(D=%d,%s,%s)" % (D2, bn, nm), "O20.silent", D2, ["a", "w"], "auto&& sl = v.sliced(a, a + w); out[0] = sl.size();", {(0, "size"): w_},
                        cases=[dict(env_s, __signs=sgs)])
        # indexing a D = 2 view whose index base is not zero, through the mutable and the const overload: the assertion is about [f, f + size)
        for cv, vexpr in (("mutable", "v"), ("const", "std::as_const(v)")):
            sg2 = {"g": NONNEG, "r": NONNEG, "t": NONNEG, "t1": NONNEG, "s0": POS, "s1": POS}
            env_i = {"f0": f0, "i0": f0 + A("r"), "z0": A("r") + 1 + A("t"), "z1": 1 + A("t1")}
            crf.add("O20.silent.index(D=2,%s,%s)" % (cv, bn), "O20.silent", 2, ["i0"], "out[0] = %s[i0].size();" % vexpr, {(0, "size of the sub-view"): 1 + A("t1")},
                    cases=[dict(env_i, __signs=sg2)])
            for nm, i0 in (("one past the end", f0 + 1 + A("t")), ("beyond", f0 + 2 + A("t") + A("r")), ("before", f0 - 1 - A("r"))):
                env_x = {"f0": f0, "i0": i0, "z0": 1 + A("t"), "z1": 1 + A("t1")}
                crf.add("O20.fires.index-%s(D=2,%s,%s)" % (nm, cv, bn), "O20.fires", 2, ["i0"], "out[0] = %s[i0].size();" % vexpr, {(0, "must-assert"): P.const(0)},
                        cases=[dict(env_x, __signs=sg2, __expect_assert=True)])
    crf.compile(nshards=2, defines=("-UNDEBUG", "-mllvm", "-inline-threshold=1000000"))
    check_expect(crf, rep)


def members(ev, fn, args, signs, tries=60):
    """evaluates the function on concrete members of the case class (small integers of each symbol's sign class); yields (assignment, outcome) with
    outcome 'assert' | 'completes' for the members on which the evaluation is decided"""
    import random
    rnd = random.Random(common.seed_from_env())
    names = set()
    for a in args:
        for sy in a.symbols():
            for t in re.findall(r"[A-Za-z_]\w*", sy):
                names.add(t)
    names -= {"base", "out", "div", "ite"}
    for _ in range(tries):
        env = viewops.sample_env(sorted(names), signs, rnd)
        if not viewops.facts_hold(signs, env):
            continue
        penv = {k: P.const(v) for k, v in env.items()}
        try:
            ev.run(fn, [a.subst(penv) for a in args], signs)
            yield env, "completes"
        except irval.AssertFires:
            yield env, "assert"
        except (irval.Inconclusive, ZeroDivisionError, KeyError):
            continue


def check_expect(cr, rep):
    """like CustomRun.check, but an item flagged __expect_assert must reach the assertion handler"""
    normal = viewops.CustomRun(rep, cr.pid, cr.zb, cr.wd, cr.tag)
    normal.ev = cr.ev
    for i, it in enumerate(cr.items):
        if not it.cases[0].get("__expect_assert"):
            continue
        case = it.cases[0]
        env = {k: v for k, v in case.items() if not k.startswith("__")}
        signs = viewops.base_signs(it.D)
        signs.update(case.get("__signs", {}))
        args = [A("base")] + viewops.descriptor_args(it.D, cr.zb, env) + [A(a).subst(env) for a in it.args] + [A("out")]
        leaves = viewops.split_run(cr.ev, cr.fn(i), args, signs, offs=set())
        verdicts = []
        for desc, sub, lsigns, largs, st, exc in leaves:
            where = (" in the sub-case {%s}" % desc) if len(leaves) > 1 else ""
            if isinstance(exc, irval.AssertFires):
                verdicts.append(("ok", str(exc)[:100]))
            elif exc is None:
                verdicts.append(("bad", "%s: an access with an index outside the extension reaches no assertion (evaluated to completion)%s" % (it.key, where), None))
            else:
                # the library's test depends on values the case does not fix: decide on concrete members of the case class
                miss = [envc for envc, oc in members(cr.ev, cr.fn(i), largs, lsigns) if oc == "completes"]
                if miss:
                    verdicts.append(("bad", "%s: an access with an index outside the extension reaches no assertion for %s%s (the test depends on values the case "
                                     "does not fix: %s)" % (it.key, miss[0], where, str(exc)[:100]), miss[0]))
                else:
                    verdicts.append(("unk", str(exc)))
        bad = [v for v in verdicts if v[0] == "bad"]
        unk = [v for v in verdicts if v[0] == "unk"]
        if bad:
            rep.violated(it.key, it.family, bad[0][1], dict(body=it.body, member=bad[0][2]))
        elif unk:
            rep.inconclusive(it.key, it.family, unk[0][1])
        else:
            rep.ok(it.key, it.family, dict(handler=verdicts[0][1], sub_cases=len(verdicts)))
    keep = [(i, it) for i, it in enumerate(cr.items) if not it.cases[0].get("__expect_assert")]
    # evaluate the in-domain items with the standard comparer, keeping function indices
    cmp_ = viewops.ViewRun(rep, cr.pid, cr.zb, cr.wd)
    for i, it in keep:
        case = it.cases[0]
        env = {k: v for k, v in case.items() if not k.startswith("__")}
        signs = viewops.base_signs(it.D)
        signs.update(case.get("__signs", {}))
        args = [A("base")] + viewops.descriptor_args(it.D, cr.zb, env) + [A(a).subst(env) for a in it.args] + [A("out")]
        leaves = viewops.split_run(cr.ev, cr.fn(i), args, signs, offs={8 * k for (k, name) in it.wants})
        for desc, sub, lsigns, largs, st, exc in leaves:
            ltag = (",{%s}" % desc) if len(leaves) > 1 else ""
            if isinstance(exc, irval.AssertFires):
                rep.violated(it.key + ltag + ".assert", it.family, "an assertion fires on an in-domain access%s: %s" % (ltag, exc), dict(body=it.body))
                continue
            if exc is not None:
                fired = [envc for envc, oc in members(cr.ev, cr.fn(i), largs, lsigns) if oc == "assert"]
                if fired:
                    rep.violated(it.key + ltag + ".assert", it.family, "an assertion fires on an in-domain access for %s (the test depends on values the case does not fix: %s)"
                                 % (fired[0], str(exc)[:100]), dict(body=it.body, member=fired[0]))
                else:
                    rep.inconclusive(it.key + ltag, it.family, str(exc))
                continue
            for (k, name), w in it.wants.items():
                wv = viewops.deep_subst(w.subst(env), sub, lsigns) if hasattr(w, "subst") else P.const(w)
                cmp_.compare("%s.%s%s" % (it.key, name, ltag), it.family, st.get(8 * k), wv, lsigns, type("o", (), {"expr": it.body})(), it.D)

"""C19 — index bases are transparent (engine L): every C01 obligation re-evaluated with free symbolic index bases,
plus reindexed / blocked / stenciled."""
from vlib import common, viewops, viewextra
from checks import c02


def run(tier):
    rep = common.Report("C19", tier, "proof",
                        "as C01, with the first index f_k of every dimension a free symbol (offset_k = f_k*stride_k); one obligation per "
                        "(operation, D, observable[, case]); non-trivial = expected normal form not constant")
    maxd = 4 if tier == "thorough" else 3
    wd = common.workdir("c19")
    vr = viewops.ViewRun(rep, "C19", False, wd)
    todo = [(op, D) for op in viewops.OPS if op.c19 for D in range(op.mind, min(op.maxd, maxd) + 1)]
    extra, nskip = viewops.variants(todo, wd, "C19")
    rep.extra["value_category_variants"] = dict(evaluated=len(extra), not_existing=nskip)
    todo = todo + extra
    vr.compile_shards(todo, nshards=12)
    for op, D in todo:
        vr.check_op(op, D, "O19")
    cr = viewops.CustomRun(rep, "C19", False, wd, "x")
    for D in range(1, maxd + 1):
        viewextra.add_root(cr, D, False, "O19", claim_collapse=False)
        viewextra.add_paths(cr, D, False, "O19")
        viewextra.add_empty_results(cr, D, False, "O19")
    for D in range(1, (3 if tier == "thorough" else 2) + 1):
        c02.add_flat(cr, D, False, fam="O19.flat")      # the whole flat-range family with free index bases (a known finding until fix 03e603d)
    cr.compile(nshards=8, extra_prelude=c02.EXTRA)
    cr.check()
    rep.need_instances("O19 obligations generated", len(rep.obligations), 1450 if tier == "quick" else 2450)
    rep.trusted = ["clang 14 IR generation and -O2 pipeline (used as normaliser)", "vlib/viewspec.py (documented index maps)",
                   "vlib/poly.py + vlib/irval.py", "two's-complement overflow ignored"]
    return rep

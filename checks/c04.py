"""C04 — owning arrays have value semantics (structure; engines A + T).

R04.prov   copies end with base_ pointing at a block freshly obtained from the array's allocator (never the source's block) and reach element copies
R04.move   move construction / assignment adopt the source block, run no element operation and no allocation, and reset the source to the empty layout
R04.alias  on no normal path do two owning arrays own the same block
R04.self   copy / move assignment have an effect-free path under this == &other
W04        decay() / unary + yield an owning array type; arrays are nothrow move constructible; views are not copy constructible
"""
import os
import re

from vlib import common, ownrules, witness

W04 = r"""
#include <boost/multi/array.hpp>
#include <type_traits>
namespace multi = boost::multi;
template<int D> constexpr bool w04() {
	using A = multi::array<int, D>;
	static_assert(std::is_same_v<decltype(std::declval<A&>()().decay()), A>, "W04 view.decay() is an owning array");
	static_assert(std::is_same_v<decltype(+std::declval<A&>()()), A>, "W04 +view is an owning array");
	static_assert(std::is_same_v<decltype(+std::declval<A const&>()), A>, "W04 +array is an owning array");
	static_assert(std::is_nothrow_move_constructible_v<A>, "W04 array nothrow move constructible");
	static_assert(std::is_copy_constructible_v<A> && std::is_copy_assignable_v<A> && std::is_move_assignable_v<A>, "W04 array regular");
	static_assert(!std::is_copy_constructible_v<multi::subarray<int, D>>, "W04 view not copy constructible");
	static_assert(std::is_constructible_v<A, multi::subarray<int, D> const&>, "W04 array constructible from view");
	static_assert(std::is_assignable_v<A&, multi::subarray<int, D> const&>, "W04 array assignable from view");
	static_assert(std::is_constructible_v<multi::array<double, D>, A const&>, "W04 array constructible from array of convertible element type");
	return true;
}
static_assert(w04<1>() && w04<2>() && w04<3>(), "");
"""


def run(tier):
    rep = common.Report("C04", tier, "other", "one obligation per (rule, operation, D) and per type-level witness")
    wd = common.workdir("own")
    dims = (1, 2) if tier == "quick" else (1, 2, 3)
    for D in dims:
        mod = ownrules.module(wd, D)
        res = ownrules.analyse(mod, rep)
        tag = "D=%d" % D
        ownrules.value_rules(rep, mod, res, tag)
        ownrules.viewflat_rule(rep, mod, res, tag, D, "R04.viewflat")
        ownrules.viewflat_control(rep, mod, D, "R04.viewflat")
        ownrules.typestate_obligations(rep, mod, res, "alias", tag)
    tu = os.path.join(wd, "w04.cpp")
    with open(tu, "w") as fh:
        fh.write(W04)
    rc, diags, raw = witness.compile_tu(tu)
    names = sorted(set(re.findall(r'"(W04 [^"]+)"', W04)))
    failed = set()
    for e, notes in witness.group_errors(diags):
        m = re.search(r'"(W04 [^"]+)"', e["msg"])
        if m:
            failed.add(m.group(1))
        elif "static_assert" not in e["msg"]:
            rep.break_("W04 witness TU: " + e["msg"][:160])
    for nm in names:
        if nm in failed:
            rep.violated("W04:" + nm[4:], "W04", "type-level witness fails: " + nm, dict())
        else:
            rep.ok("W04:" + nm[4:], "W04", None)
    rep.need_instances("R04 rule instances", sum(1 for o in rep.obligations if o["family"].startswith("R04")), 150 * len(dims))
    rep.explanation = ("Provenance and effect facts read off the abstract-interpretation traces of every copy / move / assignment / swap of the owning arrays "
                       "(engine A) plus compile-time witnesses. Decided: storage independence of copies, no element operation in moves, source reset, "
                       "self-assignment guard. Not decided: equality with a reference model along histories (values).")
    rep.trusted = ["clang 14 -O0 IR + mem2reg", "vlib/absint.py, vlib/typestate.py, vlib/ownrules.py", "clang front end (W04)"]
    return rep

"""C08 — every element is constructed once and destroyed once; storage is returned (engine A, normal paths).

R08.inv     path-sensitive typestate over the event trace of every constructor, destructor, assignment and mutator of
            static_array / array (instantiated with an element type whose special members are observable and an observing
            allocator): nothing is constructed over live objects, destroyed / assigned while dead, deallocated while alive or twice,
            every block is released with the element count it was requested with, and on every normal exit each array satisfies
            INV (empty layout and owns nothing, or owns a block of exactly num_elements(layout) live elements); no block is leaked.
R08.trivial with a trivially default constructible element the sizing constructors and reextent(x) contain no element-construction event.
"""
from vlib import common, ownrules


def run(tier):
    rep = common.Report("C08", tier, "other",
                        "one obligation per (operation, path through the interpreted container layer, D): the typestate automaton accepts the path's "
                        "event trace; distinct = distinct (operation, path, D)")
    wd = common.workdir("own")
    dims = (1, 2) if tier == "quick" else (1, 2, 3)
    total_ops = 0
    allres = {}
    for D in dims:
        mod = ownrules.module(wd, D)
        res = ownrules.analyse(mod, rep)
        allres[D] = (mod, res)
        total_ops += len(res)
        ownrules.typestate_obligations(rep, mod, res, "normal", "D=%d" % D)
    # element-construction helpers: exact construct / destroy ranges (loops unrolled)
    nexact = ownrules.rollback_exact(rep, ownrules.module(wd, 1), "D=1", "R08", 3 if tier == "quick" else 5)
    rep.need_instances("R08.exact helpers interpreted with unrolled loops", nexact, 9)
    # the destroy primitive and its call sites agree on which end of the range is passed (eighth seed round: the primitive's contract changed from
    # "beginning" to "end" with one caller, the 0-D array, left behind)
    direction = ownrules.destroy_direction(rep, ownrules.module(wd, 1), "D=1", 3)
    nsites = 0
    if direction is not None:
        for D in dims:
            nsites += ownrules.destroy_sites(rep, allres[D][0].ops, allres[D][1], direction, "D=%d" % D)
    # whether elements are constructed does not depend on their destructor: with an element type that differs from the observable one only in being
    # trivially destructible, every operation reaches the same element-construction primitives on its normal paths (destruction steps may vanish)
    base1 = ownrules.module(wd, 1)
    res1 = ownrules.analyse(base1, rep)
    modt = ownrules.module(wd, 1, prelude="#define TRACKED_TRIVIAL_DTOR 1", tag="D1_tdtor")
    rest = ownrules.analyse(modt, rep)
    ncmp = 0
    for n in sorted(res1):
        if n not in rest:
            continue

        def ctor_families(traces):
            return sorted({ownrules.thrower_key(("construct", e[1])) for r in traces if r["outcome"] == "ret" for e in r["events"] if e[0] == "construct"})
        a_, b_ = ctor_families(res1[n]), ctor_families(rest[n])
        key = "R08.ctor-indep@%s" % n
        ncmp += 1
        if a_ != b_:
            rep.violated(key, "R08.ctor-indep", "%s (D=1): with a trivially destructible element (not trivially default constructible) the element-construction steps "
                         "on the normal paths are %s, with the non-trivially destructible element they are %s: construction depends on the destructor's triviality"
                         % (base1.ops[n]["body"], b_ or "none", a_ or "none"), dict(op=n, with_destructor=a_, trivially_destructible=b_))
        else:
            rep.ok(key + "#D=1", "R08.ctor-indep", dict(constructs=a_))
    rep.need_instances("R08.ctor-indep comparisons", ncmp, 40)
    # trivial element type
    mod = ownrules.module(wd, 2, prelude="#define TRACKED_TRIVIAL 1", tag="D2_int")
    res = ownrules.analyse(mod, rep)
    for n in ("ctor_ext", "ctor_ext_alloc", "sctor_ext", "sctor_ext_alloc", "reextent", "reextent_rvalue"):
        key = "R08.trivial@%s" % n
        if n not in res:
            rep.break_("operation %s missing for the trivial element type" % n)
            continue
        bad = [e[1] for r in res[n] for e in r["events"] if e[0] == "construct"]
        if bad:
            rep.violated(key, "R08.trivial", "%s with a trivially default constructible element runs an element-construction primitive: %s" % (mod.ops[n]["body"], sorted(set(bad))),
                         dict(op=n, primitives=sorted(set(bad))))
        else:
            rep.ok(key, "R08.trivial", None)
    # an element type that is trivially default constructible but not trivial (user-provided copy operations): the sizing constructors and reextent(x)
    # must not write to the elements either.  Two cooperating sites decide this - the caller's compile-time guard and the run-time shortcut inside the
    # construction helper - so the rule combines both: an element-construction event in the container layer counts only when the helper it names,
    # interpreted with its callees inlined, reaches the allocator's construct (or stores to the slots) for this element type.
    import re as _re
    from vlib import absint as _absint
    try:
        modc = ownrules.module(wd, 2, prelude="#define TRACKED_TDC 1", tag="D2_tdc")
        full = _absint.Interp(modc.mod, inline_extra=_re.compile(r"."), max_paths=4000, max_depth=120)
        full.max_visits = 6
        touches = {}
        for name, f in sorted(modc.mod.funcs.items(), key=lambda kv: kv[1].demangled):
            mm = _re.search(r"(?:^| )xtd::alloc_uninitialized_(default|value)_construct_n\(ObsAlloc&, Tracked\*, long\)", _absint.short(f.demangled))
            if not mm:
                continue
            ptypes = [pt for pn, pt, sret in f.params]
            argv = [("c", 3) if pt == "i64" else ("p", ("param", k), 0) for k, pt in enumerate(ptypes)]
            touches[mm.group(1)] = touches.get(mm.group(1), False) or any(e[0] in ("write", "writeblk") or (e[0] == "ext" and _re.search(r"::construct[<(]", str(e[1])))
                                       for oc, rv, path in full.run(name, argv, {}) for e in path.events)
        if set(touches) != {"default", "value"}:
            rep.break_("R08.trivial (trivially default constructible, not trivial): helper summaries found only for %s" % sorted(touches))
        resc = ownrules.analyse(modc, rep, select=["ctor_ext", "ctor_ext_alloc", "sctor_ext", "sctor_ext_alloc", "reextent", "reextent_rvalue"])
        for n in ("ctor_ext", "ctor_ext_alloc", "sctor_ext", "sctor_ext_alloc", "reextent", "reextent_rvalue"):
            key = "R08.trivial@%s(trivially default constructible, not trivial)" % n
            if n not in resc:
                rep.break_("operation %s missing for the trivially default constructible element type" % n)
                continue
            bad, unknown = set(), set()
            for r in resc[n]:
                for e in r["events"]:
                    if e[0] != "construct":
                        continue
                    mm = _re.search(r"uninitialized_(default|value)_construct", str(e[1]))
                    if mm is None:
                        unknown.add(str(e[1])[:80])
                    elif touches.get(mm.group(1)):
                        bad.add(str(e[1])[:80])
            if bad:
                rep.violated(key, "R08.trivial", "%s with an element type that is trivially default constructible (but not trivial) runs %s, and that helper constructs the "
                             "elements for this type: the sizing operation writes to elements it must leave alone" % (modc.ops[n]["body"], sorted(bad)), dict(op=n, primitives=sorted(bad)))
            elif unknown:
                rep.inconclusive(key, "R08.trivial", "element-construction primitives without a summary: %s" % sorted(unknown))
            else:
                rep.ok(key, "R08.trivial", dict(helpers_touching_elements=touches))
    except _absint.Limit as e:
        rep.break_("R08.trivial (trivially default constructible, not trivial): %s" % str(e)[:200])
    # 0-dimensional arrays (one element, their own class specialisation): the default / sizing constructors with a trivial element
    import os
    from vlib import ir0, absint, owning
    src = os.path.join(wd, "zero_d.cpp")
    with open(src, "w") as fh:
        fh.write("#define TRACKED_TRIVIAL 1\n" + owning.TYPES + """
using A = ObsAlloc<Tracked>; using Arr0 = multi::array<Tracked, 0, A>; using SArr0 = multi::static_array<Tracked, 0, A>;
extern "C" void z_ctor_default(void* m) { new(m) Arr0(); }
extern "C" void z_sctor_default(void* m) { new(m) SArr0(); }
extern "C" void z_ctor_elem(void* m, Tracked const& e) { new(m) Arr0(e); }
""")
    try:
        zmod = ir0.parse(ir0.emit_o0(src, src[:-4] + ".ll", defines=("-DNDEBUG",)))      # (the 0-D constructors do not compile with assertions enabled)
        ir0.demangle_all(zmod)
        zi = absint.Interp(zmod)
        rep.units.add("zero_d.cpp")
        ctl = [e for oc, rv, p_ in zi.run("z_ctor_elem") for e in p_.events if e[0] == "construct"]
        if not ctl:
            rep.break_("R08.trivial (0-D): positive control: the element constructor of a 0-D array shows no element-construction event")
        for fn, what in (("z_ctor_default", "new(m) array<T,0>();"), ("z_sctor_default", "new(m) static_array<T,0>();")):
            key = "R08.trivial@%s" % fn[2:] + "(D=0)"
            bad = sorted({str(e[1])[:80] for oc, rv, p_ in zi.run(fn) for e in p_.events if e[0] == "construct"})
            if bad:
                rep.violated(key, "R08.trivial", "%s with a trivially default constructible element runs an element-construction primitive: %s" % (what, bad), dict(primitives=bad))
            else:
                rep.ok(key, "R08.trivial", None)
    except (common.AnalysisBroken, absint.Limit) as e:
        rep.break_("R08.trivial (0-D): %s" % str(e)[:300])
    # 0-dimensional arrays with the observable element type: the call sites of the destroy primitive (destructor, clear)
    src = os.path.join(wd, "zero_d_nt.cpp")
    with open(src, "w") as fh:
        fh.write(owning.TYPES + """
using A = ObsAlloc<Tracked>; using Arr0 = multi::array<Tracked, 0, A>; using SArr0 = multi::static_array<Tracked, 0, A>;
extern "C" void z_dtor(Arr0* a) { a->~Arr0(); }
extern "C" void z_sdtor(SArr0* a) { a->~SArr0(); }
""")
    if direction is not None:
        try:
            zmod = ir0.parse(ir0.emit_o0(src, src[:-4] + ".ll", defines=("-DNDEBUG",)))
            ir0.demangle_all(zmod)
            zi = absint.Interp(zmod)
            rep.units.add("zero_d_nt.cpp")
            zops = dict(z_dtor=dict(body="a.~array<T,0>();"), z_sdtor=dict(body="a.~static_array<T,0>();"))
            zres = {fn: [dict(events=p_.events) for oc, rv, p_ in zi.run(fn)] for fn in zops}
            n0 = ownrules.destroy_sites(rep, zops, zres, direction, "D=0")
            if n0 < 2:
                rep.break_("R08.prim.site (0-D): only %d of the 2 destroy call sites of 0-D arrays were classified" % n0)
            nsites += n0
        except (common.AnalysisBroken, absint.Limit) as e:
            rep.break_("R08.prim.site (0-D): %s" % str(e)[:300])
        rep.need_instances("R08.prim.site destroy call sites classified", nsites, 12 * len(dims))
    rep.need_instances("A.operations analysed", total_ops, 62 * len(dims))
    rep.need_instances("R08.inv traces", sum(1 for o in rep.obligations if o["family"] == "R08.inv"), 150 * len(dims))
    rep.explanation = ("Abstract interpretation (term domain, path-sensitive, exception edges followed) of the unoptimised LLVM IR of driver functions that "
                       "call every constructor / assignment / mutator of static_array and array with element type Tracked (all special members external, "
                       "noexcept(false)) and allocator ObsAlloc; the container layer is interpreted, allocation and element construct / destroy / assign "
                       "primitives are events; a typestate automaton over (storage, layout, element liveness) must accept every normal-exit trace. "
                       "INV at every public boundary gives exactly-once construction / destruction and size-matched release over all histories by induction.")
    rep.trusted = ["clang 14 -O0 IR generation + mem2reg", "vlib/absint.py, vlib/typestate.py", "the primitive table (adl_* element primitives, allocator_traits) in vlib/absint.py",
                   "value-layer facts used to compare element counts (num_elements of layout_t(extensions(L)) == num_elements(L)): discharged by C01"]
    rep.assumptions = ["element-level loops inside the adl_* primitives are summarised as one construct / destroy / assign event (their rollback structure is R09.rollback)",
                       "raw-pointer allocators; aliasing through user-held raw pointers is out of scope"]
    return rep

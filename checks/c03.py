"""C03 — standard algorithms on array / view ranges: the necessary conditions that are visible in the types and in the proxy operations.

W03.inst    each of the 20 listed algorithms instantiates on every iterator kind (begin()/end() of arrays and views of D = 1..3, elements() ranges;
            the non-mutating ones also on const ranges) — positive compile witnesses, one per (algorithm, kind)
W03.types   iterator typedef contract the algorithms rely on: random-access category, value_type is an owning, independent value (element, or an
            owning array of D-1), reference is the proxy, reference is assignable from value_type&& / value_type const& / another proxy,
            value_type is constructible from the proxy, proxies are swappable as rvalues, difference_type is signed
R03.deep    (engine A) what the algorithms do with dereferenced iterators — `*it = std::move(*jt)`, `*it = std::move(value)`, `std::iter_swap(it, jt)`,
            `value_type v(*it)`, and swap / move-assignment of sub-views — reaches the element-wise primitive on every path whose destination is not
            empty, and (R03.noshape) never writes the representation (base, layout) of the iterators / views it was given, never (de)allocates
            except for the owning value

Not decided: results and returned positions of the algorithms (data-dependent control flow inside libstdc++), and that elements outside the view
are untouched (follows from C01 + C02 + the algorithm's contract only together).
"""
import os
import re

from vlib import common, ownrules, witness

PRE = r"""
#pragma once
#include <boost/multi/array.hpp>
#include <algorithm>
#include <numeric>
#include <iterator>
#include <type_traits>
namespace multi = boost::multi;
template<class T> struct is_owning_array : std::false_type {};
template<class T, multi::dimensionality_type D, class A> struct is_owning_array<multi::array<T, D, A>> : std::true_type {};
"""

# algorithm name -> (mutating?, statement over first/last/out (same kind) and value type V)
ALGOS = [
    ("sort", True, "std::sort(first, last);"),
    ("stable_sort", True, "std::stable_sort(first, last);"),
    ("partial_sort", True, "std::partial_sort(first, first + (last - first)/2, last);"),
    ("nth_element", True, "std::nth_element(first, first + (last - first)/2, last);"),
    ("rotate", True, "(void)std::rotate(first, first + (last - first)/2, last);"),
    ("reverse", True, "std::reverse(first, last);"),
    ("partition", True, "(void)std::partition(first, last, [&](auto const& e) { return e < *first; });"),
    ("unique", True, "(void)std::unique(first, last);"),
    ("remove", True, "{ V v(*first); (void)std::remove(first, last, v); }"),
    ("copy", True, "(void)std::copy(first, last, out);"),
    ("copy_backward", True, "(void)std::copy_backward(first, last, out + (last - first));"),
    ("move", True, "(void)std::move(first, last, out);"),
    ("swap_ranges", True, "(void)std::swap_ranges(first, last, out);"),
    ("fill", True, "{ V v(*first); std::fill(first, last, v); }"),
    ("transform", True, "(void)std::transform(first, last, out, [](auto const& e) { return V(e); });"),
    ("find", False, "{ V v(*first); (void)std::find(first, last, v); }"),
    ("equal", False, "(void)std::equal(first, last, out);"),
    ("is_sorted", False, "(void)std::is_sorted(first, last);"),
    ("accumulate", False, "(void)std::accumulate(first, last, 0L, [](long acc, auto const& e) { (void)e; return acc + 1; });"),
    ("lexicographical_compare", False, "(void)std::lexicographical_compare(first, last, out, out + (last - first));"),
]

# kind name -> (D of the array parameter, expression giving the range from `x`, dimensionality of the dereferenced proxy (0 = element), tier)
KINDS = [
    ("array<1>", 1, "x", 0, "quick"),
    ("array<2> rows", 2, "x", 1, "quick"),
    ("array<3> planes", 3, "x", 2, "quick"),
    ("array<2>.transposed() columns", 2, "x.transposed()", 1, "quick"),
    ("array<2> sub-block rows", 2, "x({0, 2}, {1, 3})", 1, "quick"),
    ("array<1>.strided(2)", 1, "x.strided(2)", 0, "quick"),
    ("array<2>.elements()", 2, "x.elements()", 0, "quick"),
    ("array<2>.transposed().elements()", 2, "x.transposed().elements()", 0, "quick"),
    ("array<3>.rotated()", 3, "x.rotated()", 2, "thorough"),
    ("array<3>.transposed()", 3, "x.transposed()", 2, "thorough"),
    ("array<3>.unrotated()", 3, "x.unrotated()", 2, "thorough"),
    ("array<2>.strided(2)", 2, "x.strided(2)", 1, "thorough"),
    ("array<2>.sliced(1,3)", 2, "x.sliced(1, 3)", 1, "thorough"),
    ("array<2>.reversed()", 2, "x.reversed()", 1, "thorough"),
    ("array<2> row", 2, "x[1]", 0, "thorough"),
    ("array<2> column", 2, "x.transposed()[1]", 0, "thorough"),
    ("array<3> row of plane", 3, "x[1][1]", 0, "thorough"),
    ("array<3> plane rows", 3, "x[1]", 1, "thorough"),
    ("array<2> sub-block .elements()", 2, "x({0, 2}, {1, 3}).elements()", 0, "thorough"),
    ("array<3>.elements()", 3, "x.elements()", 0, "thorough"),
    ("array<3>.rotated().elements()", 3, "x.rotated().elements()", 0, "thorough"),
    ("array<1>.elements()", 1, "x.elements()", 0, "thorough"),
    ("array_ref<2> rows", -2, "x", 1, "thorough"),
    ("array<2>.diagonal()", 2, "x.diagonal()", 0, "thorough"),
]

TYPES = [
    ("random-access", "std::is_base_of_v<std::random_access_iterator_tag, typename std::iterator_traits<It>::iterator_category>"),
    ("value_type is independent of the range", "PD == 0 ? std::is_same_v<V, int> : is_owning_array<V>::value"),
    ("value_type differs from the proxy", "PD == 0 || !std::is_same_v<V, R>"),
    ("reference is what * yields", "std::is_same_v<R, decltype(*std::declval<It const&>())>"),
    ("value_type constructible from the proxy", "std::is_constructible_v<V, R>"),
    ("proxy assignable from value_type&&", "std::is_assignable_v<R, V&&>"),
    ("proxy assignable from value_type const&", "std::is_assignable_v<R, V const&>"),
    ("proxy assignable from a proxy", "std::is_assignable_v<R, R>"),
    ("rvalue proxies swappable", "std::is_swappable_with_v<R, R>"),
    ("difference_type is signed", "std::is_signed_v<typename std::iterator_traits<It>::difference_type>"),
    ("value_type comparable with the proxy", "std::is_convertible_v<decltype(std::declval<V const&>() < std::declval<R>()), bool> && std::is_convertible_v<decltype(std::declval<R>() < std::declval<V const&>()), bool> && std::is_convertible_v<decltype(std::declval<R>() == std::declval<V const&>()), bool>"),
]


# ranges that do not exist on the pinned tree (the expression does not compile), with the reason; read-only view operations of const D>1 arrays whose
# const& overload returns basic_const_array have no viable conversion from their helper's result
UNFORMABLE = {
    "array<2>.strided(2) (const)": "const_subarray<T,D>::strided() const& -> basic_const_array does not compile for D > 1",
    "array<2>.reversed() (const)": "const_subarray<T,D>::reversed() const& -> basic_const_array does not compile for D > 1",
}


def gen_kind_tu(k, kind, const):
    name, D, expr, pd, _t = kind
    arr = ("multi::array<int, %d>" % D) if D > 0 else ("multi::array_ref<int, %d>" % -D)
    q = " const" if const else ""
    lines = ['#include "pre.hpp"', "using X = %s%s;" % (arr, q)]
    index = {}
    lines.append("template<class XX> auto rng(XX& x) -> decltype(auto) { return %s; }" % expr)
    lines.append("using It = decltype(rng(std::declval<X&>()).begin()); using V = typename std::iterator_traits<It>::value_type; using R = typename std::iterator_traits<It>::reference; constexpr int PD = %d;" % pd)
    if not const:
        for tname, cond in TYPES:
            lines.append('static_assert(%s, "W03T");' % cond)
            index[len(lines)] = ("types", tname)
    for aname, mutating, stmt in ALGOS:
        if const and mutating:
            continue
        if const:
            body = "auto first = rng(a).begin(); auto last = rng(a).end(); auto out = rng(b).begin();"
        else:
            body = "auto first = rng(a).begin(); auto last = rng(a).end(); auto out = rng(b).begin();"
        lines.append("void w_%s(X& a, X& b) { %s %s }" % (aname, body, stmt))
        index[len(lines)] = ("inst", aname)
    return "\n".join(lines) + "\n", index


DEEP_OPS = {
    "iter_move_assign": ("assign", "*it = std::move(*jt)"),
    "iter_assign_value": ("assign", "*it = std::move(value)"),
    "iter_swap": ("assign", "std::iter_swap(it, jt)"),
    "view_swap": ("assign", "swap(std::move(v), std::move(w))"),
    "view_move_assign": ("assign", "v = std::move(w)"),
    "value_from_iter": ("construct", "value_type v(*it)"),
}


def deep_rules(rep, tier):
    wd = common.workdir("own")
    dims = (1, 2) if tier == "quick" else (1, 2, 3)
    n = 0
    for D in dims:
        mod = ownrules.module(wd, D)
        res = ownrules.analyse(mod, rep, select=list(DEEP_OPS))
        for op, (want, text) in DEEP_OPS.items():
            if op not in res:
                continue
            traces = res[op]
            tagD = "D=%d" % D
            n += 1
            # R03.deep
            key = "R03.deep@%s" % op
            shallow = []
            reached = False
            for r in traces:
                if r["outcome"] != "ret":
                    continue
                if ownrules.has_kind(r, (want,)):
                    reached = True
                    continue
                empty = any(("is_empty" in repr(c) and v) or ("num_elements" in repr(c)) for c, v in r["pc"].items())
                if not empty:
                    shallow.append(sorted(repr(c)[:80] for c in r["pc"]))
            if not reached:
                rep.violated(key, "R03.deep", "%s (proxy of dimension %d): no path reaches the element-wise %s primitive — the operation is shallow, so an algorithm "
                             "moving values through dereferenced iterators does not move the viewed elements" % (text, D, want), dict(operation=text, D=D))
            elif shallow:
                rep.violated(key, "R03.deep", "%s (proxy of dimension %d): a path with a non-empty destination returns without touching the elements (conditions %s)"
                             % (text, D, shallow[0][:3]), dict(operation=text, D=D, path=shallow[0]))
            else:
                rep.ok(key + "#" + tagD, "R03.deep", None)
            # R03.noshape
            key = "R03.noshape@%s" % op
            bad = []
            for r in traces:
                for e in r["events"]:
                    if want == "assign" and e[0] in ("alloc", "dealloc", "construct", "destroy"):
                        bad.append("%s event" % e[0])
                    if e[0] in ("write", "writeblk") and e[1][0] == "param" and not (want == "construct" and e[1][1] == 0):
                        bad.append("write into the representation of parameter %d at offset %s" % (e[1][1], e[2]))
            if bad:
                rep.violated(key, "R03.noshape", "%s (proxy of dimension %d) rebinds / resizes / reallocates instead of acting on elements: %s" % (text, D, sorted(set(bad))[:3]),
                             dict(operation=text, D=D, effects=sorted(set(bad))))
            else:
                rep.ok(key + "#" + tagD, "R03.noshape", None)
            if want == "construct":
                key = "R03.owning@%s" % op
                fnd = sorted({msg for r in traces if r["outcome"] == "ret" for rule, msg in r["findings"] if rule.startswith("R08")})
                allocs = all(ownrules.has_kind(r, ("alloc",)) for r in traces if r["outcome"] == "ret" and ownrules.has_kind(r, ("construct",))
                             and not any("num_elements" in repr(c) or "is_empty" in repr(c) for c in r["pc"]))
                if fnd or not allocs:
                    rep.violated(key, "R03.owning", "%s (D=%d): the value is not an independent owning array: %s" % (text, D, fnd[:2] or "elements constructed without a fresh allocation"),
                                 dict(operation=text, D=D, findings=fnd))
                else:
                    rep.ok(key + "#" + tagD, "R03.owning", None)
    return n


def run(tier):
    rep = common.Report("C03", tier, "other", "one obligation per (algorithm, iterator kind) instantiation witness, per (typedef-contract item, iterator kind), "
                        "and per (proxy operation, D, rule)")
    wd = common.workdir("c03")
    witness.make_pch(wd, PRE)
    kinds = [k for k in KINDS if tier == "thorough" or k[4] == "quick"]
    jobs = []
    for k, kind in enumerate(kinds):
        for const in (False, True):
            if const and kind[1] < 0:
                continue
            text, index = gen_kind_tu(k, kind, const)
            path = os.path.join(wd, "k%02d%s.cpp" % (k, "c" if const else ""))
            with open(path, "w") as fh:
                fh.write(text)
            jobs.append((path, kind, const, index))

    def one(job):
        path, kind, const, index = job
        rc, diags, raw = witness.compile_tu(path, extra=("-include-pch", os.path.join(wd, "pre.hpp.pch")))
        return job, rc, diags
    ninst = 0
    for (path, kind, const, index), rc, diags in witness.parallel(one, jobs):
        rep.units.add(os.path.basename(path))
        kname = kind[0] + (" (const)" if const else "")
        failed = {}
        for e, notes in witness.group_errors(diags):
            line = witness.attribute(e, notes, path)
            if line in index:
                failed.setdefault(line, e["msg"])
            else:
                # an error in the kind's own set-up lines (range expression, typedefs): nothing about this kind can be decided
                failed.setdefault(0, e["msg"])
        if 0 in failed:
            # the range itself cannot be formed: there is nothing to apply an algorithm to (not a C03 violation); the kinds known not to exist on the
            # pinned tree are frozen, any other one is lost coverage
            if kname in UNFORMABLE:
                rep.ok("W03.kind:%s" % kname, "W03.kind", dict(note="range cannot be formed on this tree: " + UNFORMABLE[kname]), nontrivial=False)
            else:
                rep.break_("the range %s%s can no longer be formed, so no algorithm witness exists for it: %s" % (kind[2], " (const)" if const else "", failed[0][:200]))
            continue
        for line, (fam, item) in sorted(index.items()):
            ninst += 1
            if fam == "inst":
                key = "W03.inst:std::%s on %s" % (item, kname)
                if line in failed:
                    rep.violated(key, "W03.inst", "std::%s does not instantiate on %s: %s" % (item, kname, failed[line][:240]), dict(kind=kname, algorithm=item, error=failed[line][:400]))
                else:
                    rep.ok(key, "W03.inst", None)
            else:
                key = "W03.types:%s on %s" % (item, kname)
                if line in failed:
                    rep.violated(key, "W03.types", "iterator typedef contract fails on %s: %s" % (kname, item), dict(kind=kname, item=item, error=failed[line][:300]))
                else:
                    rep.ok(key, "W03.types", None)
    ndeep = deep_rules(rep, tier)
    rep.need_instances("W03 witnesses", ninst, 280 if tier == "quick" else 800)
    rep.need_instances("R03 proxy operations analysed", ndeep, 12 if tier == "quick" else 18)
    rep.explanation = ("Positive compile witnesses (clang front end) for every listed algorithm on every iterator kind, the iterator typedef contract, and effect facts of "
                       "the proxy operations the algorithms perform (abstract-interpretation traces, engine A). These are necessary conditions: an algorithm that does "
                       "not instantiate, a value_type that aliases the range, or a shallow proxy assignment / swap cannot give value semantics. The algorithms' "
                       "results are not decided.")
    rep.trusted = ["clang 14 front end", "libstdc++ 12 algorithm implementations (as instantiated)", "clang 14 -O0 IR + mem2reg", "vlib/absint.py, vlib/ownrules.py"]
    return rep

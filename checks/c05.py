"""C05 — assignment through views is deep and never rebinds / resizes / reallocates (structure; engines A + T).

R05.noshape  no path of any view assignment / fill / swap / elements()= writes into the representation (base_, layout) of any array or view,
             allocates, deallocates, constructs or destroys
R05.deep     the normal path reaches an element-assignment primitive
R05.kind     source and destination are traversed by the same kind of range (elements() with elements(), iterators with iterators, flat pointers only
             for two array_refs)
W05          element_moved() / moved sub-views dereference to rvalue references
"""
import os
import re

from vlib import common, ownrules, witness

W05 = r"""
#include <boost/multi/array.hpp>
#include <type_traits>
#include <string>
namespace multi = boost::multi;
template<int D> constexpr bool w05() {
	using A = multi::array<std::string, D>;
	if constexpr(D == 1) {
		static_assert(std::is_same_v<decltype(std::declval<A&>()().element_moved()[0]), std::string&&>, "W05 element_moved()[i] is an rvalue reference");
		static_assert(std::is_same_v<decltype(*std::declval<A&>()().element_moved().begin()), std::string&&>, "W05 *element_moved().begin() is an rvalue reference");
		static_assert(std::is_same_v<decltype(std::move(std::declval<A&>())[0]), std::string&&>, "W05 moved array [i] is an rvalue reference");
	} else {
		static_assert(std::is_same_v<decltype(std::declval<A&>()().element_moved().elements()[0]), std::string&&>, "W05 element_moved().elements()[k] is an rvalue reference");
	}
	return true;
}
static_assert(w05<1>() && w05<2>() && w05<3>(), "");
"""


def run(tier):
    rep = common.Report("C05", tier, "other", "one obligation per (rule, view operation, D) and per type-level witness")
    wd = common.workdir("own")
    dims = (1, 2) if tier == "quick" else (1, 2, 3)
    for D in dims:
        mod = ownrules.module(wd, D)
        res = ownrules.analyse(mod, rep)
        ownrules.view_rules(rep, mod, res, "D=%d" % D)
        ownrules.viewflat_rule(rep, mod, res, "D=%d" % D, D, "R05.viewflat")
        ownrules.viewflat_control(rep, mod, D, "R05.viewflat")
    tu = os.path.join(wd, "w05.cpp")
    with open(tu, "w") as fh:
        fh.write(W05)
    rc, diags, raw = witness.compile_tu(tu)
    names = sorted(set(re.findall(r'"(W05 [^"]+)"', W05)))
    failed = set()
    for e, notes in witness.group_errors(diags):
        m = re.search(r'"(W05 [^"]+)"', e["msg"])
        if m:
            failed.add(m.group(1))
        elif "static_assert" not in e["msg"]:
            rep.break_("W05 witness TU: " + e["msg"][:160])
    for nm in names:
        if nm in failed:
            rep.violated("W05:" + nm[4:], "W05", "type-level witness fails: " + nm, dict())
        else:
            rep.ok("W05:" + nm[4:], "W05", None)
    rep.need_instances("R05 rule instances", sum(1 for o in rep.obligations if o["family"].startswith("R05")), 24 * len(dims))
    rep.explanation = ("Effect facts of every assignment-through-view operation read off the abstract-interpretation traces (engine A): they cannot rebind, "
                       "resize or reallocate, and they reach element assignment with matching traversal kinds; the extents assertion is C20's R20.extent. "
                       "Not decided: that the complement of the destination is untouched (follows from C01 + C02 together with the std algorithm contract) "
                       "and element values.")
    rep.trusted = ["clang 14 -O0 IR + mem2reg", "vlib/absint.py, vlib/ownrules.py", "clang front end (W05)"]
    return rep

"""C07 — equality and ordering are deep, layout independent and mutually consistent (engines A + T + L).

W07        the six comparison operators exist for every dimensionality 0..4 and for array / view / reference mixes (compile-time detection)
R07.dual   a != b is the negation of a == b: both operators are run in the abstract interpreter on symbolic operands; each path is a partial
           truth assignment of atoms (extents comparisons, element-comparison primitive, integer comparisons) with a constant result; for every
           pair of compatible paths the results must be opposite.  Container level (views, arrays, references, element ranges) with the value layer
           opaque, and value level (range, extensions_t, layout_t, iterators, pointers) fully interpreted down to integer comparisons.
R07.ord    a <= b == (a < b or a == b);  a > b == b < a;  a >= b == b <= a   (same method, three- and two-operator relations)
R07.ext    a == b between D-dimensional operands must compare ALL extents: its formula must contain an extents atom over extensions() of both
           operands (or, for D = 1, over extension())
O07.range  range == range: equal iff both empty or same endpoints, for all integers by enumeration of the weak orderings of the four endpoints
"""
import os
import re

from vlib import common, ir0, absint, formula, witness, owning, viewops, typestate
from vlib.poly import Poly as P
from checks import c06

A = viewops.A

OPS = [("eq", "=="), ("ne", "!="), ("lt", "<"), ("le", "<="), ("gt", ">"), ("ge", ">=")]


def combos(D):
    c = [("view_view", "multi::subarray<Tracked, %d>" % D, "multi::subarray<Tracked, %d>" % D),
         ("cview_cview", "multi::const_subarray<Tracked, %d, Tracked*>" % D, "multi::const_subarray<Tracked, %d, Tracked*>" % D),
         ("view_constptrview", "multi::subarray<Tracked, %d>" % D, "multi::subarray<Tracked, %d, Tracked const*>" % D),
         ("array_array", "multi::array<Tracked, %d>" % D, "multi::array<Tracked, %d>" % D),
         ("array_view", "multi::array<Tracked, %d>" % D, "multi::subarray<Tracked, %d>" % D),
         ("view_array", "multi::subarray<Tracked, %d>" % D, "multi::array<Tracked, %d>" % D),
         ("ref_ref", "multi::array_ref<Tracked, %d>" % D, "multi::array_ref<Tracked, %d>" % D)]
    return c


def w07(rep, wd, dims):
    """which operators exist; returns set of (D, combo, op)"""
    lines = [owning.TYPES, "#include <type_traits>"]
    for nm, sym in OPS:
        lines.append("template<class X, class Y, class = void> struct has_%s : std::false_type {};" % nm)
        lines.append("template<class X, class Y> struct has_%s<X, Y, std::void_t<decltype(std::declval<X const&>() %s std::declval<Y const&>())>> : std::true_type {};" % (nm, sym))
    asserts = []
    for D in dims:
        for cn, ta, tb in combos(D):
            for nm, sym in OPS:
                if cn == "view_constptrview" and nm not in ("eq", "ne"):
                    continue      # ordering between views over different pointer types is not part of the statement
                asserts.append((D, cn, nm, "has_%s<%s, %s>::value" % (nm, ta, tb)))
    # 0-D
    for nm, sym in OPS[:2]:
        asserts.append((0, "array0_array0", nm, "has_%s<multi::array<Tracked, 0>, multi::array<Tracked, 0>>::value" % nm))
    # 0-D ordering (through the 0-D member operator<): array / array and array_ref / array_ref
    for cn, ta, tb in combos(0):
        if cn in ("array_array", "ref_ref"):
            asserts.append((0, cn, "lt", "has_lt<%s, %s>::value" % (ta, tb)))
    for i, (D, cn, nm, cond) in enumerate(asserts):
        lines.append('static_assert(%s, "W07 %d");' % (cond, i))
    tu = os.path.join(wd, "w07.cpp")
    with open(tu, "w") as fh:
        fh.write("\n".join(lines) + "\n")
    rc, diags, raw = witness.compile_tu(tu)
    bad = set()
    for e, notes in witness.group_errors(diags):
        m = re.search(r'"W07 (\d+)"', e["msg"])
        if m:
            bad.add(int(m.group(1)))
        elif "static_assert" not in e["msg"]:
            rep.break_("W07 witness TU: " + e["msg"][:200])
    have = set()
    missing = {}
    for i, (D, cn, nm, cond) in enumerate(asserts):
        if i in bad:
            missing.setdefault((nm, "D>1" if D > 1 else "D=%d" % D), []).append("D=%d %s" % (D, cn))
        else:
            have.add((D, cn, nm))
            rep.ok("W07:%s:D=%d:%s" % (nm, D, cn), "W07", None)
    for (nm, dcls), where in sorted(missing.items()):
        sym = dict(OPS)[nm]
        rep.violated("W07:operator%s missing (%s)" % (sym, dcls), "W07", "operator%s does not exist for %d operand combinations (e.g. %s)" % (sym, len(where), where[0]),
                     dict(operator=sym, where=where))
    rep.units.add("w07.cpp")
    return have


def gen_driver(wd, dims, have):
    lines = [owning.TYPES]
    fns = []
    for D in (0,) + tuple(dims):
        for cn, ta, tb in combos(D):
            for nm, sym in OPS:
                if (D, cn, nm) not in have or (D == 0 and nm != "lt"):
                    continue          # D = 0: only the ordering primitive is examined (== / != of 0-D arrays do not compile: known finding)
                fn = "cmp_%s_D%d_%s" % (nm, D, cn)
                lines.append('extern "C" bool %s(%s const& a, %s const& b) { return a %s b; }' % (fn, ta, tb, sym))
                fns.append((fn, "container", D, cn, nm))
        for nm, sym in (OPS[:2] if D > 0 else ()):
            fn = "cmp_%s_D%d_elements" % (nm, D)
            lines.append('extern "C" bool %s(multi::subarray<Tracked, %d> const& a, multi::subarray<Tracked, %d> const& b) { return a.elements() %s b.elements(); }' % (fn, D, D, sym))
            fns.append((fn, "container", D, "elements", nm))
    # value layer
    vals = [("range", "multi::irange"), ("extension", "multi::iextension")]
    for D in (0, 1, 2, 3):
        vals.append(("extensions%d" % D, "multi::extensions_t<%d>" % D))
        vals.append(("layout%d" % D, "multi::layout_t<%d>" % D))
    for D in (1, 2):
        vals.append(("iterator%d" % D, "multi::array<Tracked, %d>::iterator" % D))
        vals.append(("const_iterator%d" % D, "multi::array<Tracked, %d>::const_iterator" % D))
        vals.append(("elements_iterator%d" % D, "multi::subarray<Tracked, %d>::elements_iterator" % D))
    for vn, ty in vals:
        for nm, sym in OPS[:2]:
            fn = "cmp_%s_%s" % (nm, vn)
            lines.append('extern "C" bool %s(%s const& a, %s const& b) { return a %s b; }' % (fn, ty, ty, sym))
            fns.append((fn, "value", None, vn, nm))
    src = os.path.join(wd, "cmp.cpp")
    with open(src, "w") as fh:
        fh.write("\n".join(lines) + "\n")
    return src, fns


def counterexample(cex):
    asgs, vals = cex
    m = formula.compatible(*asgs)
    return dict(results=vals, atoms=[(formula.show_atom(a), v) for a, v in sorted(m.items(), key=lambda kv: repr(kv[0]))][:12])


def run(tier):
    rep = common.Report("C07", tier, "other",
                        "one obligation per (relation, operand combination, D) over decision trees of the operators, per existing-operator witness and per "
                        "(range ordering, observable)")
    wd = common.workdir("c07")
    dims = (1, 2) if tier == "quick" else (1, 2, 3)
    wdims = (1, 2, 3) if tier == "quick" else (1, 2, 3, 4)
    have = w07(rep, wd, wdims)
    src, fns = gen_driver(wd, dims, have)
    text = ir0.emit_o0(src, src[:-4] + ".ll", defines=("-DNDEBUG",))
    mod = ir0.parse(text)
    ir0.demangle_all(mod)
    rep.units.add("cmp.cpp")
    cont = absint.Interp(mod, inline_extra=re.compile(r"^(?:\S+ )?boost::multi::(operator[=!<>]=?|lexicographical_compare)\(boost::multi::(const_)?subarray<|"
                                                      r"boost::multi::(const_)?subarray<.*::lexicographical_compare_|boost::multi::array_ref<.*>::operator"))
    full = absint.Interp(mod, inline_extra=re.compile(r"."), max_paths=20000)
    # a comparison written as a loop over the elements (instead of the library's comparison primitive) is followed for up to three visits of each
    # block per path; longer paths are not followed (recorded below). The relations are checked over the paths that are followed: fewer
    # combinations, each of them a genuine one.
    cont.truncate_loops = True
    full.truncate_loops = True
    trees = {}
    for fn, level, D, cn, nm in fns:
        try:
            trees[fn] = formula.tree(full if level == "value" else cont, fn)
        except absint.Limit as e:
            rep.inconclusive("R07.tree:%s" % fn, "R07.tree", str(e))
    nrel = 0
    unrolled = sorted(getattr(cont, "truncated", set()) | getattr(full, "truncated", set()))
    if unrolled:
        rep.extra["loops_unrolled_to_bound"] = unrolled[:10]
    for fn, level, D, cn, nm in fns:
        if nm != "eq" or fn not in trees:
            continue
        ne = fn.replace("cmp_eq_", "cmp_ne_")
        tag = ("D=%d:%s" % (D, cn)) if level == "container" else cn
        if ne in trees:
            n, cex = formula.check_relation([trees[fn], trees[ne]], lambda e, x: e != x)
            nrel += 1
            key = "R07.dual(%s)" % tag
            if cex is None and n > 0:
                rep.ok(key, "R07.dual", dict(paths_eq=len(trees[fn]), paths_ne=len(trees[ne]), combinations=n, atoms=len(formula.atoms_of(trees[fn]))))
                rep.sample(dict(relation=key, combinations=n, atoms=[formula.show_atom(a, 100) for a in list(formula.atoms_of(trees[fn]))[:3]]))
            elif n == 0:
                rep.inconclusive(key, "R07.dual", "no compatible path pair")
            else:
                rep.violated(key, "R07.dual", "a != b is not the negation of a == b for %s: both give %s under one truth assignment of the atoms" % (tag, cex[1][0]), counterexample(cex))
        if level == "container":
            # R07.deep: a == b is true only on paths on which the element sequences were compared and found equal (or the two operands are one object):
            # base pointer, strides and extents do not identify the elements of a view
            key = "R07.deep(%s)" % tag
            shallow = []
            for asg, res in trees[fn]:
                if not res:
                    continue
                deep = any(v and isinstance(a, tuple) and a[0] == "equal-elements" for a, v in asg.items())
                ident = any(v and isinstance(a, tuple) and a[0] == "cmp" and a[1] == "eq" and {repr(a[2]), repr(a[3])} == {"('param', 0)", "('param', 1)"} for a, v in asg.items())
                if not deep and not ident:
                    shallow.append(sorted(formula.show_atom(a, 70) for a, v in asg.items() if v))
            nrel += 1
            if shallow:
                rep.violated(key, "R07.deep", "a == b (%s) yields true on a path that does not compare the elements (conditions on that path: %s)" % (tag, shallow[0][:4]),
                             dict(paths=shallow[:3]))
            else:
                rep.ok(key, "R07.deep", None)
        if level != "container" or cn == "elements":
            continue
        # R07.ext : the extents atom must cover all dimensions
        key = "R07.ext(%s)" % tag
        atoms = formula.atoms_of(trees[fn])
        names = [a[1] for a in atoms if isinstance(a, tuple) and len(a) == 3 and a[0] == "call"]
        all_ext = any(re.search(r"operator==\(extensions_t const&(, extensions_t const&)?\)", x) for x in names)
        lead_only = any(re.search(r"operator==\(range const&, range const&\)|extension_t", x) for x in names)
        if D == 1 and (all_ext or lead_only):
            rep.ok(key, "R07.ext", dict(atoms=sorted(set(names))[:6]))
        elif all_ext:
            rep.ok(key, "R07.ext", dict(atoms=sorted(set(names))[:6]))
        else:
            rep.violated("R07.ext(D>1)" if D > 1 else key, "R07.ext",
                         "a == b (%s) compares only the leading extension and the flat element sequence: operands of different shape with equal leading "
                         "extent, equal element count and equal flat contents compare equal" % tag, dict(atoms=sorted(set(names))))
        # R07.ord
        rels = [("le", ("lt", "eq"), lambda le, lt, eq: le == (lt or eq), "a <= b == (a < b or a == b)")]
        for opn, deps, rel, text in rels:
            f0 = fn.replace("cmp_eq_", "cmp_%s_" % opn)
            fs = [fn.replace("cmp_eq_", "cmp_%s_" % d) for d in deps]
            if f0 in trees and all(f in trees for f in fs):
                base_atoms = set()
                for f in fs:
                    base_atoms |= formula.atoms_of(trees[f])
                extra = formula.atoms_of(trees[f0]) - base_atoms
                if extra:
                    # the derived operator resolves to a different equality implementation than a == b does for these operand types
                    # (array_ref's flat comparison vs the view comparison): no propositional relation between them exists; recorded, not claimed
                    rep.extra.setdefault("R07.ord_not_comparable", []).append("%s;%s" % (opn, tag))
                    continue
                n, cex = formula.check_relation([trees[f0]] + [trees[f] for f in fs], rel)
                nrel += 1
                key = "R07.ord(%s;%s)" % (opn, tag)
                if cex is None and n > 0:
                    rep.ok(key, "R07.ord", dict(combinations=n))
                else:
                    rep.violated(key, "R07.ord", "%s does not hold for %s" % (text, tag), counterexample(cex) if cex else dict())
    # R07.lex: the ordering of D>1 arrays / views recurses over the leading dimension: its lexicographical-compare primitive ranges over the operands'
    # sub-view iterators (begin()/end()), whose elements are compared by the same operator one dimension down; a comparison of the flat elements()
    # sequences instead is not "a proper prefix is smaller" when inner extents differ
    for fn, level, D, cn, nm in fns:
        if level != "container" or nm != "lt" or cn == "elements" or fn not in trees:
            continue
        tag = "D=%d:%s" % (D, cn)
        sigs = sorted({a[1] for a in formula.atoms_of(trees[fn]) if isinstance(a, tuple) and len(a) == 3 and a[0] == "call" and "lexicographical_compare" in a[1]})
        if not sigs:
            rep.extra.setdefault("R07.lex_no_primitive", []).append(tag)
            continue
        # operand order: the primitive ranges over the left operand first (a < b is lexicographical_compare(a.begin(), a.end(), b.begin(), b.end()))
        okey = "R07.lexorder(%s)" % tag
        wrong = []
        for a in formula.atoms_of(trees[fn]):
            if isinstance(a, tuple) and len(a) == 3 and a[0] == "call" and "lexicographical_compare" in a[1] and len(a[2]) >= 5:
                r = [repr(x) for x in a[2][1:5]]
                left = all("('param', 0)" in x and "('param', 1)" not in x for x in r[:2])
                right = all("('param', 1)" in x and "('param', 0)" not in x for x in r[2:])
                if not (left and right):
                    wrong.append([("b" if "('param', 1)" in x else "a") for x in r])
        if wrong:
            rep.violated("R07.lexorder(D%s:%s)" % (">1" if D > 1 else "=%d" % D, cn), "R07.lex", "a < b (%s) passes its operands to the lexicographic comparison in the order %s instead of "
                         "(a, a, b, b): the result is b < a" % (tag, wrong[0]), dict(order=wrong[0]))
        else:
            rep.ok(okey, "R07.lex", None)
        # nothing but the index bases may decide the order ahead of the elements: an operand of smaller size is smaller only if it is a prefix
        gkey = "R07.lexguard(%s)" % tag
        sized = sorted({formula.show_atom(a, 120) for a in formula.atoms_of(trees[fn])
                        if isinstance(a, tuple) and a and a[0] == "cmp" and re.search(r"layout_t::(size|num_elements)\(\) const|extensions_t::num_elements", repr(a))})
        if sized:
            rep.violated("R07.lexguard(D%s:%s)" % (">1" if D > 1 else "=%d" % D, cn), "R07.lex", "a < b (%s) is decided by a comparison of sizes before any element is looked at (%s): "
                         "the order is not lexicographic (a shorter operand is smaller only when it is a prefix)" % (tag, sized[0]), dict(atoms=sized))
        else:
            rep.ok(gkey, "R07.lex", None)
        if D == 0:
            continue
        nrel += 1
        key = "R07.lex(%s)" % tag
        flat = [x for x in sigs if "elements_iterator_t" in x or re.search(r"operator\(\)\([^)]*\*", x)]
        sub = [x for x in sigs if "array_iterator" in x]
        if D > 1 and (flat or not sub):
            rep.violated("R07.lex(D>1:%s)" % cn, "R07.lex", "a < b (%s) compares the flat element sequences (%s) instead of recursing over the leading dimension: with different "
                         "inner extents a row that is a proper prefix of the other operand's row is not smaller" % (tag, re.sub(r"^.*operator\(\)", "", (flat or sigs)[0])[:120]),
                         dict(primitive=(flat or sigs)[0]))
        else:
            rep.ok(key, "R07.lex", dict(primitive=re.sub(r"^.*operator\(\)", "", sigs[0])[:100]))
    # swapped-operand relations need the trees of the swapped call: generate them by swapping argument values
    for fn, level, D, cn, nm in fns:
        if level != "container" or nm not in ("gt", "ge"):
            continue
        ta, tb = [c for c in combos(D) if c[0] == cn][0][1:]
        if ta != tb:
            continue
        base = fn.replace("cmp_%s_" % nm, "cmp_%s_" % ("lt" if nm == "gt" else "le"))
        if base not in trees or fn not in trees:
            continue
        f = mod.funcs[base]
        try:
            swapped = formula.tree(cont, base, [("p", ("param", 1), 0), ("p", ("param", 0), 0)])
        except absint.Limit as e:
            rep.inconclusive("R07.tree:%s(swapped)" % base, "R07.tree", str(e))
            continue
        n, cex = formula.check_relation([trees[fn], swapped], lambda x, y: x == y)
        nrel += 1
        key = "R07.ord(%s;D=%d:%s)" % (nm, D, cn)
        text = "a > b == b < a" if nm == "gt" else "a >= b == b <= a"
        if cex is None and n > 0:
            rep.ok(key, "R07.ord", dict(combinations=n))
        else:
            rep.violated(key, "R07.ord", "%s does not hold for D=%d %s" % (text, D, cn), counterexample(cex) if cex else dict())
    # O07.range
    cr = viewops.CustomRun(rep, "C07", True, wd, "range")
    names = ["a0", "a1", "b0", "b1"]
    cases = c06.order_cases(names, [("a0", "a1"), ("b0", "b1")])

    def wants(case, env):
        r = case["__rank"]
        both_empty = r["a0"] == r["a1"] and r["b0"] == r["b1"]
        same = r["a0"] == r["b0"] and r["a1"] == r["b1"]
        return {(0, "=="): P.const(1 if (both_empty or same) else 0), (1, "!="): P.const(0 if (both_empty or same) else 1)}
    for ty in ("multi::irange", "multi::iextension"):
        cr.add("O07.range(%s)" % ty.split("::")[-1], "O07.range", 1, names,
               "%s x{a0, a1}; %s y{b0, b1}; out[0] = (x == y) ? 1 : 0; out[1] = (x != y) ? 1 : 0;" % (ty, ty), wants, cases=cases, view=False)
    cr.compile(nshards=2)
    cr.check()
    rep.need_instances("R07 relations checked", nrel, 30 if tier == "quick" else 45)
    rep.need_instances("W07 operator witnesses", len(have), 100)
    rep.explanation = ("Comparison operators are run in the abstract interpreter on symbolic operands; each is a decision tree over atoms; relations between "
                       "operators are decided on all compatible path combinations (exact for the propositional structure, independent of element values). "
                       "Not decided: the lexicographic order itself (inside std::lexicographical_compare) and transitivity over element values.")
    rep.trusted = ["clang 14 -O0 IR + mem2reg", "vlib/absint.py, vlib/formula.py", "clang front end (W07)", "engine L (O07.range)"]
    return rep

"""C01 — view algebra (engine L): per-operation address map, shape, invariant preservation on an arbitrary zero-based view."""
from vlib import common, viewops, viewextra


import itertools
import os
import random

from vlib import irval
from vlib.poly import Poly as P, POS, NONNEG

# Owning arrays re-declare a few view operations for rvalues (element-moving views / iterators) and per value category (begin / end).  Each must
# designate the same elements, with the same shape, as the operation inherited from the view class, which the O01 obligations decide.
OWNING_FORMS = [
    ("std::move(a)()", "std::move(a)()", "a()", 1),
    ("std::move(a).taked(n)", "std::move(a).taked(n)", "a.taked(n)", 1),
    ("std::move(a).dropped(n)", "std::move(a).dropped(n)", "a.dropped(n)", 1),
    ("std::move(a)[n]", "std::move(a)[n]", "a[n]", 1),
    ("*(a.begin() + n)", "*(a.begin() + n)", "*(a().begin() + n)", 1),
    ("*(std::as_const(a).begin() + n)", "*(std::as_const(a).begin() + n)", "*(a().begin() + n)", 1),
    ("*(std::move(a).begin() + n)", "*(std::move(a).begin() + n)", "*(a().begin() + n)", 1),
    ("*(a.end() - n)", "*(a.end() - n)", "*(a().end() - n)", 1),
    ("*(std::move(a).end() - n)", "*(std::move(a).end() - n)", "*(a().end() - n)", 1),
    # taked / dropped of a const D > 1 array do not compile on the pinned tree (observed, DESIGN 10.3): the const forms exist for D = 1 only
    ("std::as_const(a).taked(n)", "std::as_const(a).taked(n)", "a.taked(n)", -1),
    ("std::as_const(a).dropped(n)", "std::as_const(a).dropped(n)", "a.dropped(n)", -1),
]


def owning_forms(rep, wd, maxd):
    """The array object is passed by reference; its fields are read through loads.  Which address holds which field is read off the compiled program
    itself (a probe function per D stores stride / offset / nelems of every dimension and the base pointer), and the loads are then given the values of
    a canonical owning array: sizes z_k >= 1, index bases f_k, strides S_k = prod_{j>k} z_j, offsets f_k S_k, nelems z_k S_k."""
    lines = [viewops.PRELUDE, "#include <utility>"]
    fns = []
    for D in range(1, maxd + 1):
        lines.append('extern "C" void owprobe_%d(multi::array<double, %d>& a, long* out) { out[0] = reinterpret_cast<long>(a.base()); %s }'
                     % (D, D, " ".join("{ auto const& l = subk<%d>(a.layout()); out[%d] = l.stride(); out[%d] = l.offset(); out[%d] = l.nelems(); }"
                                       % (k, 4 + 6 * k + 3, 4 + 6 * k + 4, 4 + 6 * k + 5) for k in range(D))
                        + " { auto const& l0 = subk<%d>(a.layout()); out[1] = l0.offset(); out[2] = l0.nelems(); }" % D))
        for k, (name, rv, lv, mind) in enumerate(OWNING_FORMS):
            if D < mind or (mind < 0 and D > -mind):
                continue
            for side, expr in (("f", rv), ("r", lv)):
                lines.append('extern "C" void ow%s_%d_%d(multi::array<double, %d>& a, long n, long i0, long i1, long i2, long i3, long i4, long* out) '
                             '{ observe(%s, a.base(), out, i0, i1, i2, i3, i4); }' % (side, k, D, D, expr))
            fns.append((k, D, name))
    src = os.path.join(wd, "owning_forms.cpp")
    with open(src, "w") as fh:
        fh.write("\n".join(lines) + "\n")
    try:
        text = irval.emit_ir(src, src[:-4] + ".ll", defines=("-DNDEBUG", "-fno-vectorize", "-fno-slp-vectorize"))
    except common.AnalysisBroken as e:
        rep.break_("O01.owning: the owning-array forms do not compile: %s" % str(e)[:300])
        return 0
    funcs, structs = irval.parse_module(text)
    ev = irval.Evaluator(funcs, structs)
    rep.units.add("owning_forms.cpp")
    A = viewops.A
    fieldmap = {}
    for D in range(1, maxd + 1):
        ev.symbolic_loads = True
        try:
            ev.run("owprobe_%d" % D, [A("a"), A("out")], {})
        except (irval.Inconclusive, irval.AssertFires) as e:
            rep.break_("O01.owning: the field probe for D=%d is not evaluated: %s" % (D, e))
            return 0
        st = dict(ev.stores)
        fm = {}
        ok = st.get(0) is not None and len(st[0].symbols()) == 1
        if ok:
            fm[list(st[0].symbols())[0]] = ("base",)
        for k in range(D):
            for j, what in ((3, "stride"), (4, "offset"), (5, "nelems")):
                v = st.get(8 * (4 + 6 * k + j))
                if v is None or len(v.symbols()) != 1 or not list(v.symbols())[0].startswith("mem["):
                    ok = False
                else:
                    fm[list(v.symbols())[0]] = (what, k)
        for slot, what in ((1, "offset0d"), (2, "nelems0d")):      # the innermost (0-dimensional) layout: offset 0, one element
            v = st.get(8 * slot)
            if v is None or len(v.symbols()) != 1 or not list(v.symbols())[0].startswith("mem["):
                ok = False
            else:
                fm[list(v.symbols())[0]] = (what,)
        if not ok or len(fm) != 3 * D + 3:
            rep.break_("O01.owning: the fields of array<double, %d> are not single loads in the probe (%d of %d identified)" % (D, len(fm), 3 * D + 3))
            return 0
        fieldmap[D] = fm

    def loader(D, vals):
        """vals: dict z0.., f0.. (Poly); returns the load callback of a canonical array with these sizes / bases"""
        def S(k):
            r = P.const(1)
            for j in range(k + 1, D):
                r = r * vals["z%d" % j]
            return r

        def load(p_):
            key = irval.atom("mem", p_ - vals["a"] + A("a"))      # the probe identified the fields by their offset from the object's address
            names = list(key.symbols())
            what = fieldmap[D].get(names[0]) if len(names) == 1 else None
            if what is None:
                raise irval.Inconclusive("load of a field of the array object that the probe did not identify: %r" % p_)
            if what[0] == "base":
                return vals["base"]
            if what[0] == "offset0d":
                return P.const(0)
            if what[0] == "nelems0d":
                return P.const(1)
            k = what[1]
            return {"stride": S(k), "offset": vals["f%d" % k] * S(k), "nelems": vals["z%d" % k] * S(k)}[what[0]]
        return load
    n = 0
    for k, D, name in fns:
        key = "O01.owning(%s,D=%d)" % (name, D)
        n += 1
        # symbolic class: n inside the leading extension (z0 = n + 1 + t), every other size >= 1, arbitrary index bases
        vals = {"a": A("a"), "base": A("base"), "z0": A("n") + 1 + A("t")}
        signs = {"n": NONNEG, "t": NONNEG, "base": POS}
        for d in range(D):
            vals["f%d" % d] = A("f%d" % d)
            if d:
                vals["z%d" % d] = 1 + A("y%d" % d)
                signs["y%d" % d] = NONNEG
        args = [A(x) for x in ("a", "n", "i0", "i1", "i2", "i3", "i4", "out")]
        try:
            ev.symbolic_loads = loader(D, vals)
            ev.run("owr_%d_%d" % (k, D), args, signs)
            want = dict(ev.stores)
            ev.run("owf_%d_%d" % (k, D), args, signs)
            got = dict(ev.stores)
        except (irval.Inconclusive, irval.AssertFires) as e:
            # the library branches on a relation the symbolic class does not fix: the two forms are compared on concrete canonical arrays instead
            got, want, decided = {}, {}, 0
            rnd = random.Random(common.seed_from_env() * 1000 + n)
            for _ in range(60):
                cv = {"a": P.const(4096), "base": P.const(1 << 20)}
                for d in range(D):
                    cv["z%d" % d] = P.const(rnd.randint(1, 4))
                    cv["f%d" % d] = P.const(rnd.randint(-2, 3))
                ev.symbolic_loads = loader(D, cv)
                cargs = [P.const(4096), P.const(rnd.randint(0, int(cv["z0"].const_value())))] + [P.const(rnd.randint(0, 3)) for _i in range(5)] + [A("out")]
                try:
                    ev.run("owr_%d_%d" % (k, D), cargs, {})
                    w_ = dict(ev.stores)
                    ev.run("owf_%d_%d" % (k, D), cargs, {})
                    g_ = dict(ev.stores)
                except (irval.Inconclusive, irval.AssertFires, ZeroDivisionError):
                    continue
                decided += 1
                got, want = g_, w_
                if g_ != w_:
                    break
            if not decided:
                rep.inconclusive(key, "O01.owning", str(e))
                continue
        bad = ["out[%d]: %r, the inherited operation gives %r" % (o // 8, got.get(o), want.get(o)) for o in sorted(set(got) | set(want)) if got.get(o) != want.get(o)]
        if bad or not want:
            rep.violated(key, "O01.owning", "%s of an owning array (D=%d) does not designate the elements / shape of %s: %s"
                         % (name, D, OWNING_FORMS[k][2], "; ".join(bad[:3])[:400] or "nothing observed"), dict(problems=bad[:8]))
        else:
            rep.ok(key, "O01.owning", None)
    return n


def run(tier):
    rep = common.Report("C01", tier, "proof",
                        "one obligation per (operation, source dimensionality, observable[, case]); each is an identity between the closed form "
                        "computed by the optimised library code on a fully symbolic view descriptor and the closed form prescribed by the "
                        "specification table; non-trivial = the expected normal form is not a constant")
    maxd = 4 if tier == "thorough" else 3
    wd = common.workdir("c01")
    vr = viewops.ViewRun(rep, "C01", True, wd)
    todo = [(op, D) for op in viewops.OPS if op.c01 for D in range(op.mind, min(op.maxd, maxd) + 1)]
    extra, nskip = viewops.variants(todo, wd, "C01")
    rep.extra["value_category_variants"] = dict(evaluated=len(extra), not_existing=nskip)
    todo = todo + extra
    vr.compile_shards(todo, nshards=12)
    for op, D in todo:
        vr.check_op(op, D, "O01")
    cr = viewops.CustomRun(rep, "C01", True, wd, "x")
    for D in range(1, maxd + 1):
        viewextra.add_root(cr, D, True, "O01")
        viewextra.add_paths(cr, D, True, "O01")
        viewextra.add_empty_results(cr, D, True, "O01")
    cr.compile(nshards=8)
    cr.check()
    nown = owning_forms(rep, wd, 3 if tier == "thorough" else 2)
    rep.need_instances("O01.owning forms compared", nown, 20)
    rep.need_instances("O01 obligations generated", len(rep.obligations), 1400 if tier == "quick" else 2400)
    rep.trusted = ["clang 14 IR generation and -O2 pipeline (used as normaliser)", "vlib/viewspec.py (documented index maps)",
                   "vlib/poly.py + vlib/irval.py (polynomial normal forms, IR subset reader)", "two's-complement overflow ignored (nsw assumed, as the library does)"]
    rep.checker_cmd = "clang++ -std=gnu++17 -I/repo/include -O2 -DNDEBUG -S -emit-llvm <generated drivers>; python3 vlib/irval.py evaluation"
    return rep

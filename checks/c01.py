"""C01 — view algebra (engine L): per-operation address map, shape, invariant preservation on an arbitrary zero-based view."""
from vlib import common, viewops, viewextra


def run(tier):
    rep = common.Report("C01", tier, "proof",
                        "one obligation per (operation, source dimensionality, observable[, case]); each is an identity between the closed form "
                        "computed by the optimised library code on a fully symbolic view descriptor and the closed form prescribed by the "
                        "specification table; non-trivial = the expected normal form is not a constant")
    maxd = 4 if tier == "thorough" else 3
    wd = common.workdir("c01")
    vr = viewops.ViewRun(rep, "C01", True, wd)
    todo = [(op, D) for op in viewops.OPS if op.c01 for D in range(op.mind, min(op.maxd, maxd) + 1)]
    extra, nskip = viewops.variants(todo, wd, "C01")
    rep.extra["value_category_variants"] = dict(evaluated=len(extra), not_existing=nskip)
    todo = todo + extra
    vr.compile_shards(todo, nshards=12)
    for op, D in todo:
        vr.check_op(op, D, "O01")
    cr = viewops.CustomRun(rep, "C01", True, wd, "x")
    for D in range(1, maxd + 1):
        viewextra.add_root(cr, D, True, "O01")
        viewextra.add_paths(cr, D, True, "O01")
        viewextra.add_empty_results(cr, D, True, "O01")
    cr.compile(nshards=8)
    cr.check()
    rep.need_instances("O01 obligations generated", len(rep.obligations), 1400 if tier == "quick" else 2400)
    rep.trusted = ["clang 14 IR generation and -O2 pipeline (used as normaliser)", "vlib/viewspec.py (documented index maps)",
                   "vlib/poly.py + vlib/irval.py (polynomial normal forms, IR subset reader)", "two's-complement overflow ignored (nsw assumed, as the library does)"]
    rep.checker_cmd = "clang++ -std=gnu++17 -I/repo/include -O2 -DNDEBUG -S -emit-llvm <generated drivers>; python3 vlib/irval.py evaluation"
    return rep

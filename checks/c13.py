"""C13 — BLAS adaptor: every leaf of the gemm_n (4 conjugation variants) and gemv_n (2 variants) dispatch is the mathematical product.

Engine B (on top of engine L): the dispatchers are force-inlined into driver functions that build the operand iterators from raw
descriptors and pass a context whose gemm / gemv are external; the optimised IR is evaluated in the polynomial domain under an exhaustive
case split of the guard quantities (which strides are 1, which sizes are 1) restricted to operands that are valid BLAS general matrices
(one unit stride, non-overlapping rows or columns).  Each case yields the xGEMM / xGEMV argument list as closed forms (or a rejection by
assertion / exception).  Contract of reference BLAS (column major):
    C'[i + j ldc] = alpha sum_l opA(A')[i,l] opB(B')[l,j] + beta C'[i + j ldc],  0<=i<m, 0<=j<n, 0<=l<k,  ld >= max(1, stored rows)
must denote  c[r][q] = alpha sum_l a[r][l] b[l][q] + beta c[r][q]  with the views' own addresses  a[r][l] @ r A0 + l A1, ...
under one of the two orientations (i,j) = (r,q) with (A',B') = (a,b)  or  (i,j) = (q,r) with (A',B') = (b,a).
A case that neither calls BLAS correctly nor rejects is a silent miscomputation.
"""
import itertools
import os
import re

from vlib import common, irval, viewops, witness
from vlib.poly import Poly as P, sign, POS, NONNEG, ZERO, NEG, NONPOS

A = viewops.A

DRIVER = r"""
#include <boost/multi/adaptors/blas/gemm.hpp>
#include <boost/multi/adaptors/blas/gemv.hpp>
#include <complex>
namespace multi = boost::multi;
using cplx = std::complex<double>;
struct Ctx {
	void gemm(char ta, char tb, long m, long n, long k, cplx const* alpha, cplx const* a, long lda, cplx const* b, long ldb, cplx const* beta, cplx* c, long ldc);
	void gemv(char t, long m, long n, cplx const* alpha, cplx const* a, long lda, cplx const* x, long incx, cplx const* beta, cplx* y, long incy);
};
static inline auto mk0() { return multi::layout_t<0>{multi::monostate{}, multi::monostate{}, 0, 1}; }
static inline auto mk1(long s0, long o0, long n0) { return multi::layout_t<1>{mk0(), s0, o0, n0}; }
static inline auto mk2(long s0, long o0, long n0, long s1, long o1, long n1) { return multi::layout_t<2>{mk1(s1, o1, n1), s0, o0, n0}; }
#define OPERANDS multi::subarray<cplx, 2> a(mk2(a0, 0, M*a0, a1, 0, K*a1), ab), b(mk2(b0, 0, K*b0, b1, 0, N*b1), bb), c(mk2(c0, 0, M*c0, c1, 0, N*c1), cb)
#define PARAMS Ctx* ctx, cplx* ab, long a0, long a1, long M, long K, cplx* bb, long b0, long b1, long N, cplx* cb, long c0, long c1, double al, double be
extern "C" void g_NN(PARAMS) { OPERANDS; multi::blas::gemm_n(ctx, cplx{al, 0}, a.begin(), M, b.begin(), cplx{be, 0}, c.begin()); }
extern "C" void g_NC(PARAMS) { OPERANDS; multi::blas::gemm_n(ctx, cplx{al, 0}, a.begin(), M, multi::blas::conj(b).begin(), cplx{be, 0}, c.begin()); }
extern "C" void g_CN(PARAMS) { OPERANDS; multi::blas::gemm_n(ctx, cplx{al, 0}, multi::blas::conj(a).begin(), M, b.begin(), cplx{be, 0}, c.begin()); }
extern "C" void g_CC(PARAMS) { OPERANDS; multi::blas::gemm_n(ctx, cplx{al, 0}, multi::blas::conj(a).begin(), M, multi::blas::conj(b).begin(), cplx{be, 0}, c.begin()); }
#define VPARAMS Ctx* ctx, cplx* ab, long a0, long a1, long M, long K, cplx* xb, long x0, cplx* yb, long y0, double al, double be
#define VOPERANDS multi::subarray<cplx, 2> a(mk2(a0, 0, M*a0, a1, 0, K*a1), ab); multi::subarray<cplx, 1> x(mk1(x0, 0, K*x0), xb), y(mk1(y0, 0, M*y0), yb)
extern "C" void v_N(VPARAMS) { VOPERANDS; multi::blas::gemv_n(ctx, cplx{al, 0}, a.begin(), M, x.begin(), cplx{be, 0}, y.begin()); }
extern "C" void v_C(VPARAMS) { VOPERANDS; multi::blas::gemv_n(ctx, cplx{al, 0}, multi::blas::conj(a).begin(), M, x.begin(), cplx{be, 0}, y.begin()); }
// the library's own context: argument checks of core::gemm / core::gemv in front of the Fortran symbols
extern "C" void core_gemm(char ta, char tb, long m, long n, long k, cplx const* al, cplx const* a, long lda, cplx const* b, long ldb, cplx const* be, cplx* c, long ldc) {
	multi::blas::context ctx; ctx.gemm(ta, tb, m, n, k, al, a, lda, b, ldb, be, c, ldc);
}
extern "C" void core_gemv(char t, long m, long n, cplx const* al, cplx const* a, long lda, cplx const* x, long incx, cplx const* be, cplx* y, long incy) {
	multi::blas::context ctx; ctx.gemv(t, m, n, al, a, lda, x, incx, be, y, incy);
}
"""

ELEM = 16


def size_cases(tier="quick"):
    """each of M, N, K is 1 or >= 2 (thorough: also 0)"""
    classes = ("1", ">") if tier == "quick" else ("0", "1", ">")
    for big in itertools.product(classes, repeat=3):
        env, signs = {}, {}
        for nm, b in zip("MNK", big):
            if b == ">":
                env[nm] = 2 + A(nm.lower() + "x")
                signs[nm.lower() + "x"] = NONNEG
            else:
                env[nm] = P.const(int(b))
        yield big, env, signs


def matrix_cases(pre, rows, cols, rbig, cbig):
    """valid BLAS general-matrix layouts of a rows x cols operand with strides (pre0, pre1); returns (name, env, signs)"""
    out = []
    p = pre + "p"
    # unit column stride (rows are contiguous): row stride >= cols when there is more than one row, arbitrary (== 1 or >= 2) otherwise
    for which, unit, other, n_other, has_many in (("row-major", pre + "1", pre + "0", cols, rbig), ("col-major", pre + "0", pre + "1", rows, cbig)):
        if True:      # a size-1 dimension of a view derived from an array keeps its parent's stride (>= the other extent)
            if n_other.is_const() and n_other.const_value() in (0, 1):
                out.append(("%s,other=1" % which, {unit: P.const(1), other: P.const(1)}, {}))
                out.append(("%s,other>1" % which, {unit: P.const(1), other: 2 + A(p)}, {p: NONNEG}))
            else:
                out.append(("%s,padded" % which, {unit: P.const(1), other: n_other + A(p)}, {p: NONNEG}))
    # dedupe identical substitutions
    seen, res = set(), []
    for nm, env, sg in out:
        k = tuple(sorted((a, repr(b)) for a, b in env.items()))
        if k not in seen:
            seen.add(k)
            res.append((nm, env, sg))
    return res


def ge(x, y, signs):
    return sign(x - y, signs) in (POS, NONNEG, ZERO)


def lt(x, y, signs):
    return sign(x - y, signs) == NEG


def pmax1(x, signs):
    """max(1, x) for a size polynomial whose class is decided (0, 1, or >= 2)"""
    return x if ge(x, P.const(1), signs) else P.const(1)


# -----------------------------------------------------------------------------------------------------------------
# B13.core: what the library's own context does with a xGEMM / xGEMV argument list before the Fortran symbol is reached

DIMCLASSES = (("0", lambda x: (P.const(0), {})), ("1", lambda x: (P.const(1), {})), (">", lambda x: (2 + A(x), {x: NONNEG})))


def core_tables(rep, ev):
    """Evaluates core::gemm / core::gemv on symbolic argument lists.  Obligations: a legal list reaches the Fortran symbol unchanged.
    Returns {"gemm": {"lda": bool, "ldb": bool, "ldc": bool}, "gemv": {"lda": bool}}: whether an illegal value of that leading dimension is
    rejected (exception / assertion) before the call."""
    ptr = {"al": POS, "a": POS, "d1": POS, "d2": POS, "be": POS, "t1": NONNEG, "t2": NONNEG, "t3": NONNEG}
    rejects = {"gemm": {}, "gemv": {}}      # (ld name, trans flags, dimension classes, how far below the minimum) -> rejected before the call
    n = 0
    for ta, tb in itertools.product((78, 84, 67), repeat=2):
        for (cm, fm), (cn, fn_), (ck, fk) in itertools.product(DIMCLASSES, repeat=3):
            (m, s1), (nn, s2), (k, s3) = fm("mx"), fn_("nx"), fk("kx")
            signs = dict(ptr)
            for sg in (s1, s2, s3):
                signs.update(sg)
            rows = {"lda": m if ta == 78 else k, "ldb": k if tb == 78 else nn, "ldc": m}
            for bad, how in ((None, ""), ("lda", "-1"), ("ldb", "-1"), ("ldc", "-1"), ("lda", "<<"), ("ldb", "<<"), ("ldc", "<<")):
                ld = {}
                for (nm, t) in (("lda", "t1"), ("ldb", "t2"), ("ldc", "t3")):
                    legal_min = pmax1(rows[nm], signs)
                    ld[nm] = (legal_min + A(t)) if nm != bad else ((legal_min - 1) if how == "-1" else (legal_min - 2 - A(t)))
                args = [P.const(ta), P.const(tb), m, nn, k, A("al"), A("a"), ld["lda"], A("a") + A("d1"), ld["ldb"], A("be"), A("a") + A("d1") + A("d2"), ld["ldc"]]
                key = "B13.core.gemm('%s','%s',m%s,n%s,k%s,%s)" % (chr(ta), chr(tb), cm, cn, ck, "legal" if bad is None else bad + " = min" + how)
                n += 1
                try:
                    ev.run("core_gemm", args, signs)
                    calls = [c for c in ev.extcalls if c[0] == "zgemm_"]
                except irval.AssertFires:
                    if bad is None:
                        rep.violated(key, "B13.core", "core::gemm rejects a legal argument list ('%s','%s', m,n,k of classes %s%s%s, leading dimensions >= max(1, stored rows))"
                                     % (chr(ta), chr(tb), cm, cn, ck), dict(args=[repr(a) for a in args]))
                    else:
                        rejects["gemm"][(bad, ta, tb, cm, cn, ck, how)] = True
                        rep.ok(key, "B13.core", None, nontrivial=False)
                    continue
                except irval.Inconclusive as e:
                    rep.inconclusive(key, "B13.core", str(e))
                    continue
                if bad is not None:
                    rejects["gemm"][(bad, ta, tb, cm, cn, ck, how)] = False
                    rep.ok(key, "B13.core", dict(note="illegal %s is passed on to xGEMM" % bad), nontrivial=False)
                    continue
                got = None
                if len(calls) == 1:
                    vals, der = calls[0][1], calls[0][2]
                    got = [der[0], der[1], der[2], der[3], der[4], vals[5], vals[6], der[7], vals[8], der[9], vals[10], vals[11], der[12]]
                if got != args:
                    rep.violated(key, "B13.core", "core::gemm does not forward its argument list unchanged to zgemm_: got %r, expected %r" % (got, args), dict(got=repr(got), want=repr(args)))
                else:
                    rep.ok(key, "B13.core", None)
    for t in (78, 84, 67):
        for (cm, fm), (cn, fn_) in itertools.product(DIMCLASSES, repeat=2):
            (m, s1), (nn, s2) = fm("mx"), fn_("nx")
            signs = dict(ptr)
            signs.update(s1)
            signs.update(s2)
            signs.update({"ix": POS, "iy": POS})
            for bad, how in ((None, ""), ("lda", "-1"), ("lda", "<<")):
                legal_min = pmax1(m, signs)
                lda = legal_min + A("t1") if bad is None else ((legal_min - 1) if how == "-1" else (legal_min - 2 - A("t1")))
                args = [P.const(t), m, nn, A("al"), A("a"), lda, A("a") + A("d1"), A("ix"), A("be"), A("a") + A("d1") + A("d2"), A("iy")]
                key = "B13.core.gemv('%s',m%s,n%s,%s)" % (chr(t), cm, cn, "legal" if bad is None else "lda = min" + how)
                n += 1
                try:
                    ev.run("core_gemv", args, signs)
                    calls = [c for c in ev.extcalls if c[0] == "zgemv_"]
                except irval.AssertFires:
                    if bad is None:
                        rep.violated(key, "B13.core", "core::gemv rejects a legal argument list", dict(args=[repr(a) for a in args]))
                    else:
                        rejects["gemv"][("lda", t, cm, cn, how)] = True
                        rep.ok(key, "B13.core", None, nontrivial=False)
                    continue
                except irval.Inconclusive as e:
                    rep.inconclusive(key, "B13.core", str(e))
                    continue
                if bad is not None:
                    rejects["gemv"][("lda", t, cm, cn, how)] = False
                    rep.ok(key, "B13.core", dict(note="illegal lda is passed on to xGEMV"), nontrivial=False)
                    continue
                got = None
                if len(calls) == 1:
                    vals, der = calls[0][1], calls[0][2]
                    got = [der[0], der[1], der[2], vals[3], vals[4], der[5], vals[6], der[7], vals[8], vals[9], der[10]]
                if got != args:
                    rep.violated(key, "B13.core", "core::gemv does not forward its argument list unchanged to zgemv_: got %r, expected %r" % (got, args), dict(got=repr(got), want=repr(args)))
                else:
                    rep.ok(key, "B13.core", None)
    return rejects, n


def dim_classes(x, signs=None):
    """classes ('0', '1', '>') a dimension value may belong to"""
    if isinstance(x, int):
        return ("0",) if x == 0 else ("1",) if x == 1 else (">",)
    if x.is_const():
        return dim_classes(int(x.const_value()))
    if ge(x, P.const(2), signs):
        return (">",)
    if ge(x, P.const(1), signs):
        return ("1", ">")
    return ("0", "1", ">")


def hows(ld, minimum, signs=None):
    """how far below the legal minimum an illegal leading dimension is: '-1' (just below) and / or '<<' (further)"""
    if isinstance(ld, int):
        return ("-1",) if ld == minimum - 1 else ("<<",)
    d = minimum - 1 - ld
    if d.is_zero():
        return ("-1",)
    if sign(d, signs) == POS:
        return ("<<",)
    return ("-1", "<<")


def core_rejects_gemm(table, nm, ta, tb, m, n, k, ld, minimum, signs=None):
    """True iff core::gemm rejects this illegal leading dimension on every class the call may belong to (as evaluated by core_tables)"""
    return all(table["gemm"].get((nm, ta, tb, cm, cn, ck, how), False)
               for cm in dim_classes(m, signs) for cn in dim_classes(n, signs) for ck in dim_classes(k, signs) for how in hows(ld, minimum, signs))


def core_rejects_gemv(table, t, m, n, ld, minimum, signs=None):
    return all(table["gemv"].get(("lda", t, cm, cn, how), False) for cm in dim_classes(m, signs) for cn in dim_classes(n, signs) for how in hows(ld, minimum, signs))


# -----------------------------------------------------------------------------------------------------------------
# B13.gemm / B13.gemv: the dispatchers

def gemm_identities(call, env, big, conjA, conjB):
    """reasons (per orientation) why the call does not denote the product as polynomial identities; [] if one orientation matches"""
    this, ta, tb, m, n, k, alpha, pa, lda, pb, ldb, beta, pc, ldc = call
    ta, tb = int(ta.const_value()), int(tb.const_value())
    M, N, K = (A(x).subst(env) for x in "MNK")
    S = {nm: A(nm).subst(env) for nm in ("a0", "a1", "b0", "b1", "c0", "c1")}
    r, q, l = A("r"), A("q"), A("l")
    restrict = {}
    for nm, b in zip("rql", big):
        if b != ">":
            restrict[nm] = P.const(0)
    addr_a = (r * S["a0"] + l * S["a1"]) * ELEM + A("ab")
    addr_b = (l * S["b0"] + q * S["b1"]) * ELEM + A("bb")
    addr_c = (r * S["c0"] + q * S["c1"]) * ELEM + A("cb")
    reasons = []
    for orient in ("rq", "qr"):
        i, j = (r, q) if orient == "rq" else (q, r)
        mm, nn = (M, N) if orient == "rq" else (N, M)
        why = []
        if not (m == mm and n == nn and k == K):
            why.append("dimensions (m,n,k) = (%r,%r,%r), expected (%r,%r,%r)" % (m, n, k, mm, nn, K))
        if (pc + (i + j * ldc) * ELEM).subst(restrict) != addr_c.subst(restrict):
            why.append("C'[i + j ldc] is not c[r][q]")

        def el(ptr, ld, t, x, y):          # op(X)[x, y]
            return ptr + ((x + y * ld) if t == 78 else (y + x * ld)) * ELEM
        first = el(pa, lda, ta, i, l)
        second = el(pb, ldb, tb, l, j)
        if orient == "rq":
            wf, ws, cf, cs = addr_a, addr_b, conjA, conjB
        else:
            wf, ws, cf, cs = addr_b, addr_a, conjB, conjA
        if big[2] != "0" and first.subst(restrict) != wf.subst(restrict):
            why.append("op(A')[i,l] does not address %s" % ("a[r][l]" if orient == "rq" else "b[l][q]"))
        if big[2] != "0" and second.subst(restrict) != ws.subst(restrict):
            why.append("op(B')[l,j] does not address %s" % ("b[l][q]" if orient == "rq" else "a[r][l]"))
        if big[2] != "0" and ((ta == 67) != cf or (tb == 67) != cs):
            why.append("conjugation flags ('%s','%s') do not match the operands" % (chr(ta), chr(tb)))
        if not why:
            return []
        reasons.append("%s: %s" % (orient, "; ".join(why)))
    return reasons


def gemm_ld_status(call, signs):
    """{ld name: 'legal' | 'illegal' | 'depends'} against the reference-BLAS requirement ld >= max(1, stored rows)"""
    this, ta, tb, m, n, k, alpha, pa, lda, pb, ldb, beta, pc, ldc = call
    ta, tb = int(ta.const_value()), int(tb.const_value())
    out = {}
    for nm, ld, rows in (("lda", lda, m if ta == 78 else k), ("ldb", ldb, k if tb == 78 else n), ("ldc", ldc, m)):
        if ge(ld, rows, signs) and ge(ld, P.const(1), signs):
            out[nm] = "legal"
        elif lt(ld, rows, signs) or lt(ld, P.const(1), signs):
            out[nm] = "illegal"
        else:
            out[nm] = "depends"
    return out


def instances(signs, names, hi=2):
    """small concrete members of a case class: every free size / padding parameter in 0..hi"""
    names = sorted(names)
    for vals in itertools.product(range(hi + 1), repeat=len(names)):
        yield dict(zip(names, vals))


def gemm_witness(call, env, signs, big, conjA, conjB, core):
    """a concrete member of the case class on which the issued call is legal for (not rejected by) the context and yet is not the product"""
    this, ta, tb, m, n, k, alpha, pa, lda, pb, ldb, beta, pc, ldc = call
    tai, tbi = int(ta.const_value()), int(tb.const_value())
    free = set()
    for pl in [m, n, k, pa, lda, pb, ldb, pc, ldc] + [A(x).subst(env) for x in ("M", "N", "K", "a0", "a1", "b0", "b1", "c0", "c1")]:
        free |= pl.symbols()
    free -= {"ab", "bb", "cb"}
    bases = {"ab": 1 << 20, "bb": 2 << 20, "cb": 3 << 20}
    for inst in instances(signs, free):
        e = dict(bases)
        e.update(inst)
        v = {nm: int(pl.evaluate(e)) for nm, pl in (("m", m), ("n", n), ("k", k), ("pa", pa), ("lda", lda), ("pb", pb), ("ldb", ldb), ("pc", pc), ("ldc", ldc))}
        V = {nm: int(A(nm).subst(env).evaluate(e)) for nm in ("M", "N", "K", "a0", "a1", "b0", "b1", "c0", "c1")}
        rows = {"lda": v["m"] if tai == 78 else v["k"], "ldb": v["k"] if tbi == 78 else v["n"], "ldc": v["m"]}
        illegal = [nm for nm in rows if v[nm] < max(1, rows[nm])]
        if any(core_rejects_gemm(core, nm, tai, tbi, v["m"], v["n"], v["k"], v[nm], max(1, rows[nm])) for nm in illegal):
            continue                        # rejected by the context on this member
        if illegal:
            return dict(V, call=dict(v, ta=chr(tai), tb=chr(tbi)), failure="%s = %d < max(1, %d) reaches xGEMM unrejected: the BLAS error handler returns without computing"
                        % (illegal[0], v[illegal[0]], rows[illegal[0]]))
        ok_any = False
        fail = None
        for orient in ("rq", "qr"):
            mm, nn = (V["M"], V["N"]) if orient == "rq" else (V["N"], V["M"])
            good = (v["m"], v["n"], v["k"]) == (mm, nn, V["K"])
            cfl = (conjA, conjB) if orient == "rq" else (conjB, conjA)
            good = good and (V["K"] == 0 or ((tai == 67), (tbi == 67)) == cfl)
            if good:
                for r, q, l in itertools.product(range(V["M"]), range(V["N"]), range(-1, V["K"])):
                    i, j = (r, q) if orient == "rq" else (q, r)
                    wc = bases["cb"] + (r * V["c0"] + q * V["c1"]) * ELEM
                    c2 = v["pc"] + (i + j * v["ldc"]) * ELEM
                    if l < 0:                       # the output element itself (also when K == 0: c := beta c)
                        if c2 != wc:
                            good = False
                            fail = "output element (r,q)=(%d,%d)" % (r, q)
                            break
                        continue
                    wa = bases["ab"] + (r * V["a0"] + l * V["a1"]) * ELEM
                    wb = bases["bb"] + (l * V["b0"] + q * V["b1"]) * ELEM
                    f = v["pa"] + ((i + l * v["lda"]) if tai == 78 else (l + i * v["lda"])) * ELEM
                    s2 = v["pb"] + ((l + j * v["ldb"]) if tbi == 78 else (j + l * v["ldb"])) * ELEM
                    wf, ws = (wa, wb) if orient == "rq" else (wb, wa)
                    if (f, s2) != (wf, ws):
                        good = False
                        fail = "element (r,q,l)=(%d,%d,%d)" % (r, q, l)
                        break
            if good:
                ok_any = True
                break
        if not ok_any:
            return dict(V, call=dict(v, ta=chr(tai), tb=chr(tbi)), failure=fail or "dimensions / flags")
    return None


def gemv_identities(call, env, big, conjA):
    this, t, m, n, alpha, pa, lda, px, incx, beta, py, incy = call
    t = int(t.const_value())
    M, K = A("M").subst(env), A("K").subst(env)
    S = {nm: A(nm).subst(env) for nm in ("a0", "a1", "x0", "y0")}
    r, l = A("r"), A("l")
    restrict = {}
    if big[0] != ">":
        restrict["r"] = P.const(0)
    if big[2] != ">":
        restrict["l"] = P.const(0)
    addr_a = (r * S["a0"] + l * S["a1"]) * ELEM + A("ab")
    why = []
    # BLAS: 'N': y_i = sum_j A'[i + j lda] x_j (i<m, j<n); 'T'/'C': y_j = sum_i A'[i + j lda] x_i
    if t == 78:
        if not (m == M and n == K):
            why.append("dimensions (m,n) = (%r,%r), expected (%r,%r)" % (m, n, M, K))
        el = pa + (r + l * lda) * ELEM
    else:
        if not (m == K and n == M):
            why.append("dimensions (m,n) = (%r,%r), expected (%r,%r)" % (m, n, K, M))
        el = pa + (l + r * lda) * ELEM
    if el.subst(restrict) != addr_a.subst(restrict):
        why.append("op(A')[r,l] does not address a[r][l]")
    if (t == 67) != conjA:
        why.append("conjugation flag '%s' does not match the operand" % chr(t))
    if px != A("xb") or incx != S["x0"] or py != A("yb").subst(env) or incy != S["y0"]:
        why.append("vector arguments (x, incx, y, incy) are not the operands' base and stride")
    return why


# -----------------------------------------------------------------------------------------------------------------
# B13.l1: the single-call level-1 wrappers (argument agreement: count, base address and stride of each vector, conjugation by routine choice)
L1_DRIVER = r"""
#include <boost/multi/array.hpp>
#include <boost/multi/adaptors/blas/axpy.hpp>
#include <boost/multi/adaptors/blas/copy.hpp>
#include <boost/multi/adaptors/blas/swap.hpp>
#include <boost/multi/adaptors/blas/scal.hpp>
#include <boost/multi/adaptors/blas/dot.hpp>
#include <boost/multi/adaptors/blas/nrm2.hpp>
#include <boost/multi/adaptors/blas/asum.hpp>
#include <boost/multi/adaptors/blas/iamax.hpp>
#include <complex>
namespace multi = boost::multi;
static inline auto mk0() { return multi::layout_t<0>{multi::monostate{}, multi::monostate{}, 0, 1}; }
static inline auto mk1(long s0, long o0, long n0) { return multi::layout_t<1>{mk0(), s0, o0, n0}; }
template<class T> struct real_of { using type = T; };
template<class T> struct real_of<std::complex<T>> { using type = T; };
#define VEC(T) multi::subarray<T, 1> x(mk1(x0, 0, n*x0), xb), y(mk1(y0, 0, n*y0), yb)
#define LP(T) T* xb, long x0, T* yb, long y0, long n, typename real_of<T>::type al, T* rp, typename real_of<T>::type* dp
#define L1(S, T) \
extern "C" void l_axpy_##S(LP(T)) { VEC(T); multi::blas::axpy_n(T{al}, x.begin(), n, y.begin()); } \
extern "C" void l_copy_##S(LP(T)) { VEC(T); multi::blas::copy_n(x.begin(), n, y.begin()); } \
extern "C" void l_swap_##S(LP(T)) { VEC(T); multi::blas::swap_n(x.begin(), n, y.begin()); } \
extern "C" void l_scal_##S(LP(T)) { VEC(T); multi::blas::scal_n(T{al}, x.begin(), n); } \
extern "C" void l_dot_##S(LP(T)) { VEC(T); multi::blas::context c; multi::blas::dot_n(&c, x.begin(), n, y.begin(), rp); } \
extern "C" void l_nrm2_##S(LP(T)) { VEC(T); multi::blas::nrm2_n(x.begin(), n, dp); } \
extern "C" void l_asum_##S(LP(T)) { VEC(T); multi::blas::asum_n(x.begin(), n, dp); } \
extern "C" long l_iamax_##S(LP(T)) { VEC(T); return multi::blas::iamax_n(x.begin(), n); }
#define L1C(S, T) \
extern "C" void l_dotcy_##S(LP(T)) { VEC(T); multi::blas::context c; multi::blas::dot_n(&c, x.begin(), n, multi::blas::conj(y).begin(), rp); } \
extern "C" void l_dotcx_##S(LP(T)) { VEC(T); multi::blas::context c; multi::blas::dot_n(&c, multi::blas::conj(x).begin(), n, y.begin(), rp); }
L1(z, std::complex<double>) L1C(z, std::complex<double>)
L1(c, std::complex<float>)  L1C(c, std::complex<float>)
L1(d, double)
L1(s, float)
"""

L1_TYPES = {"z": 16, "c": 8, "d": 8, "s": 4}


def l1_spec(S):
    """wrapper -> (Fortran routine, positions of (n, x, incx[, y, incy]) in its argument list, operand order, meaning) for element type prefix S"""
    cplx = S in "zc"
    nrm = {"z": "dznrm2_", "c": "scnrm2_", "d": "dnrm2_", "s": "snrm2_"}[S]
    asum = {"z": "dzasum_", "c": "scasum_", "d": "dasum_", "s": "sasum_"}[S]
    spec = {
        "l_axpy": (S + "axpy_", dict(n=0, x=2, incx=3, y=4, incy=5), "xy", "y := alpha x + y"),
        "l_copy": (S + "copy_", dict(n=0, x=1, incx=2, y=3, incy=4), "xy", "y := x"),
        "l_swap": (S + "swap_", dict(n=0, x=1, incx=2, y=3, incy=4), "xy", "x <-> y"),
        "l_scal": (S + "scal_", dict(n=0, x=2, incx=3), "x", "x := alpha x"),
        "l_nrm2": (nrm, dict(n=0, x=1, incx=2), "x", "||x||"),
        "l_asum": (asum, dict(n=0, x=1, incx=2), "x", "sum |x_i|"),
        "l_iamax": ("i" + S + "amax_", dict(n=0, x=1, incx=2), "x", "argmax |x_i|"),
    }
    if S == "s":
        # the single precision real dot is issued as a 1 x n matrix-vector product too (core.hpp)
        spec["l_dot"] = ("sgemv_", dict(n=2, x=4, incx=5, y=6, incy=7), "xy*", "sum x_i y_i")
        return spec
    if cplx:
        # zdotc(n, X, incX, Y, incY) = sum conj(X_i) Y_i : the conjugated operand must be the routine's first vector
        spec["l_dotcy"] = (S + "dotc_", dict(n=0, x=1, incx=2, y=3, incy=4), "yx", "sum x_i conj(y_i)")
        spec["l_dotcx"] = (S + "dotc_", dict(n=0, x=1, incx=2, y=3, incy=4), "xy", "sum conj(x_i) y_i")
        # dotu is issued as a 1 x n matrix-vector product: xgemv('N', 1, n, 1, X, incX (as lda), Y, incY, 0, r, 1)
        spec["l_dot"] = (S + "gemv_", dict(n=2, x=4, incx=5, y=6, incy=7), "xy*", "sum x_i y_i")
    else:
        spec["l_dot"] = (S + "dot_", dict(n=0, x=1, incx=2, y=3, incy=4), "xy", "sum x_i y_i")
    return spec


def level1(rep, wd):
    src = os.path.join(wd, "l1.cpp")
    with open(src, "w") as fh:
        fh.write(L1_DRIVER)
    text = irval.emit_ir(src, src[:-4] + ".ll", defines=("-DNDEBUG", "-fno-vectorize", "-fno-slp-vectorize", "-mllvm", "-inline-threshold=1000000"))
    funcs, structs = irval.parse_module(text)
    ev = irval.Evaluator(funcs, structs)
    rep.units.add("l1.cpp")
    n = 0
    for S in sorted(L1_TYPES):
        spec = l1_spec(S)
        routines = {v[0] for v in spec.values()}
        # a block move of element storage is an effect too: it takes the place of (or adds to) the BLAS call and is reported as such
        ev.record_external = lambda c, routines=routines: c in routines or c.startswith("llvm.memmove") or c.startswith("llvm.memcpy")
        for fn0, (routine, pos, order, meaning) in sorted(spec.items()):
            fn = fn0 + "_" + S
            for xs, ys in itertools.product(("1", ">1"), repeat=2):
                if "y" not in pos and ys == ">1":
                    continue
                env = {"x0": P.const(1) if xs == "1" else 2 + A("xp"), "y0": P.const(1) if ys == "1" else 2 + A("yp")}
                signs = {"xb": POS, "yb": POS, "dxy": POS, "xp": NONNEG, "yp": NONNEG, "nn": NONNEG, "rp": POS, "dp": POS}
                cnt = 1 + A("nn")
                args = [A("xb"), env["x0"], A("xb") + A("dxy"), env["y0"], cnt, irval.atom("float", "al"), A("rp"), A("dp")]
                key = "B13.l1:%s<%s>[incx%s%s]" % (fn0[2:], S, xs, (" incy" + ys) if "y" in pos else "")
                n += 1
                esz = L1_TYPES[S]

                def judge(calls, x0, y0, cnt_):
                    """problems of the recorded effects against the wrapper's contract, for operands (xb, inc x0), (xb + dxy, inc y0), count cnt_"""
                    if len(calls) == 1 and calls[0][0].startswith("llvm.mem") and fn0 == "l_copy":
                        # a block move of the element storage is the copy exactly when both increments are one and it moves count elements x -> y
                        v_ = calls[0][1]
                        if x0 == P.const(1) and y0 == P.const(1) and v_[0] == A("xb") + A("dxy") and v_[1] == A("xb") and v_[2] == cnt_ * esz:
                            return []
                        return ["a block move of %r bytes from %r to %r stands for the copy of %r elements with increments (%r, %r)" % (v_[2], v_[1], v_[0], cnt_, x0, y0)]
                    if len(calls) != 1 or calls[0][0] != routine:
                        return ["expected one call of %s, got %s" % (routine, [c[0] for c in calls])]
                    vals, der = calls[0][1], calls[0][2]

                    def arg(i):
                        return der[i] if der[i] is not None else vals[i]
                    want_x, want_incx, want_y, want_incy = A("xb"), x0, A("xb") + A("dxy"), y0
                    if order.startswith("yx"):
                        want_x, want_incx, want_y, want_incy = want_y, want_incy, want_x, want_incx
                    bad_ = []
                    if arg(pos["n"]) != cnt_:
                        bad_.append("count %r, expected %r" % (arg(pos["n"]), cnt_))
                    if arg(pos["x"]) != want_x or arg(pos["incx"]) != want_incx:
                        bad_.append("first vector (%r, inc %r), expected (%r, inc %r)" % (arg(pos["x"]), arg(pos["incx"]), want_x, want_incx))
                    if "y" in pos and (arg(pos["y"]) != want_y or arg(pos["incy"]) != want_incy):
                        bad_.append("second vector (%r, inc %r), expected (%r, inc %r)" % (arg(pos["y"]), arg(pos["incy"]), want_y, want_incy))
                    if order.endswith("*"):
                        # the 1 x n matrix-vector form: trans 'N', one row, unit result stride
                        if not (arg(0).is_const() and int(arg(0).const_value()) == 78 and arg(1) == P.const(1) and arg(10) == P.const(1) and arg(9) == A("rp")):
                            bad_.append("the matrix-vector form is not ('N', 1, n, ..., r, 1)")
                    return bad_
                try:
                    ev.run(fn, args, signs)
                except irval.Inconclusive as e:
                    # the wrapper branches on a relation between the increments (or the count) that the case does not fix: decide on concrete members
                    wit = None
                    decided = 0
                    for xp_, yp_, nn_ in itertools.product(range(3), repeat=3):
                        penv = {"xp": P.const(xp_), "yp": P.const(yp_), "nn": P.const(nn_)}
                        cargs = [a_.subst(penv) if isinstance(a_, P) else a_ for a_ in args]
                        try:
                            ev.run(fn, cargs, signs)
                        except (irval.Inconclusive, irval.AssertFires):
                            continue
                        decided += 1
                        cc = [c for c in ev.extcalls if c[0] in routines or c[0].startswith("llvm.mem")]
                        b_ = judge(cc, env["x0"].subst(penv), env["y0"].subst(penv), cnt.subst(penv))
                        if b_:
                            wit = (dict(incx=str(env["x0"].subst(penv)), incy=str(env["y0"].subst(penv)), n=nn_ + 1), b_)
                            break
                    if wit:
                        rep.violated(key, "B13.l1", "%s<%s> (%s): the wrapper takes an increment-dependent shortcut and for %s: %s" % (fn0[2:], S, meaning, wit[0], "; ".join(wit[1])),
                                     dict(member=wit[0], problems=wit[1]))
                    else:
                        rep.inconclusive(key, "B13.l1", str(e) + " (%d concrete members agree)" % decided)
                    continue
                except irval.AssertFires as e:
                    rep.violated(key, "B13.l1", "%s aborts on a valid vector pair: %s" % (fn0[2:], e), dict())
                    continue
                calls = [c for c in ev.extcalls if c[0] in routines or c[0].startswith("llvm.mem")]
                bad = judge(calls, env["x0"], env["y0"], cnt)
                if bad:
                    rep.violated(key, "B13.l1", "%s<%s> (%s): the %s call does not denote the operands: %s" % (fn0[2:], S, meaning, routine, "; ".join(bad)), dict(problems=bad))
                else:
                    rep.ok(key, "B13.l1", None)
    return n

# -----------------------------------------------------------------------------------------------------------------
# B13.trsm: the dispatch of blas::trsm(side, fill, diagonal, alpha, a, b) — solves a x = alpha b (left) or x a = alpha b (right) in place of b, with the
# `fill` triangle of a — against the reference-BLAS contract of xTRSM(side, uplo, transa, diag, m, n, alpha, A', lda, B', ldb):
#     side 'L': op(A') X = alpha B'      side 'R': X op(A') = alpha B'      X overwrites the m x n column-major B', uplo names the triangle of A'
TRSM_DRIVER = r"""
#include <boost/multi/adaptors/blas/trsm.hpp>
#include <complex>
namespace multi = boost::multi;
using cplx = std::complex<double>;
struct TCtx { void trsm(char side, char uplo, char trans, char diag, long m, long n, cplx alpha, cplx const* a, long lda, cplx* b, long ldb); };
static inline auto mk0() { return multi::layout_t<0>{multi::monostate{}, multi::monostate{}, 0, 1}; }
static inline auto mk1(long s0, long o0, long n0) { return multi::layout_t<1>{mk0(), s0, o0, n0}; }
static inline auto mk2(long s0, long o0, long n0, long s1, long o1, long n1) { return multi::layout_t<2>{mk1(s1, o1, n1), s0, o0, n0}; }
#define TP TCtx* ctx, char sd, char fl, cplx* ab, long a0, long a1, long K, cplx* bb, long b0, long b1, long M, long N, double ar, double ai
#define TOPS multi::subarray<cplx, 2> a(mk2(a0, 0, K*a0, a1, 0, K*a1), ab), b(mk2(b0, 0, M*b0, b1, 0, N*b1), bb); \
	auto const side = static_cast<multi::blas::side>(sd); auto const fill = static_cast<multi::blas::filling>(fl); auto const dg = multi::blas::diagonal::non_unit
extern "C" void t_NN(TP) { TOPS; multi::blas::trsm(ctx, side, fill, dg, cplx{ar, ai}, a, b); }
extern "C" void t_CN(TP) { TOPS; multi::blas::trsm(ctx, side, fill, dg, cplx{ar, ai}, multi::blas::conj(a), b); }
extern "C" void t_NC(TP) { TOPS; multi::blas::trsm(ctx, side, fill, dg, cplx{ar, ai}, a, multi::blas::conj(b)); }
// conj(a), conj(b): the library's branch for two conjugated operands does not compile on the pinned tree (`bbase` is undeclared): loud, not analysed
extern "C" void t_enum(long* out) { out[0] = static_cast<char>(multi::blas::side::left); out[1] = static_cast<char>(multi::blas::side::right);
	out[2] = static_cast<char>(multi::blas::filling::lower); out[3] = static_cast<char>(multi::blas::filling::upper); out[4] = static_cast<char>(multi::blas::diagonal::non_unit); }
"""


def trsm_rule(rep, wd):
    src = os.path.join(wd, "trsm.cpp")
    with open(src, "w") as fh:
        fh.write(TRSM_DRIVER)
    text = irval.emit_ir(src, src[:-4] + ".ll", defines=("-UNDEBUG", "-fno-vectorize", "-fno-slp-vectorize", "-mllvm", "-inline-threshold=1000000"))
    funcs, structs = irval.parse_module(text)
    ev = irval.Evaluator(funcs, structs)
    ev.record_external = lambda c: c.startswith("_ZN4TCtx")
    rep.units.add("trsm.cpp")
    ev.run("t_enum", [A("out")], {"out": POS})
    enum = {k: int(ev.stores[8 * k].const_value()) for k in range(5)}
    LEFT, RIGHT, LOWER, UPPER, NONUNIT = (enum[k] for k in range(5))
    n = 0
    layouts = (("row-major", {"0": lambda ext, p: ext + A(p), "1": lambda ext, p: P.const(1)}), ("col-major", {"0": lambda ext, p: P.const(1), "1": lambda ext, p: ext + A(p)}))
    for variant, conjA, conjB in (("NN", False, False), ("CN", True, False), ("NC", False, True)):
        for sname, sd in (("left", LEFT), ("right", RIGHT)):
            for fname_, fl in (("lower", LOWER), ("upper", UPPER)):
                for (an, al_), (bn, bl_) in itertools.product(layouts, repeat=2):
                    M, N = 2 + A("mx"), 2 + A("nx")
                    K = M if sd == LEFT else N
                    env = {"a0": al_["0"](K, "ap"), "a1": al_["1"](K, "ap"), "b0": bl_["0"](N, "bp"), "b1": bl_["1"](M, "bp")}
                    signs = {"ab": POS, "bb": POS, "ctx": POS, "mx": NONNEG, "nx": NONNEG, "ap": NONNEG, "bp": NONNEG}
                    args = [A("ctx"), P.const(sd), P.const(fl), A("ab"), env["a0"], env["a1"], K, A("bb"), env["b0"], env["b1"], M, N,
                            irval.atom("float", "ar"), irval.atom("float", "ai")]
                    case = "%s %s a:%s b:%s" % (sname, fname_, an, bn)
                    key = "B13.trsm<%s>[%s]" % (variant, case)
                    n += 1
                    try:
                        ev.run("t_" + variant, args, signs)
                        calls = list(ev.extcalls)
                    except irval.AssertFires as e:
                        rep.ok(key, "B13.reject", dict(rejected=str(e)[:80]), nontrivial=False)
                        continue
                    except irval.Inconclusive as e:
                        rep.inconclusive(key, "B13.trsm", str(e))
                        continue
                    if len(calls) != 1:
                        rep.violated(key, "B13.trsm", "trsm<%s> (%s) neither calls xTRSM nor rejects the combination" % (variant, case), dict(case=case))
                        continue
                    this, S, U, T, Dg, m, nn, are, aim, pa, lda, pb, ldb = calls[0][1]
                    S, U, T, Dg = (int(x.const_value()) for x in (S, U, T, Dg))
                    i, j, l = A("i"), A("j"), A("l")
                    why = []
                    # B' orientation
                    badr = pb + (i + j * ldb) * ELEM
                    same = badr == A("bb") + (i * env["b0"] + j * env["b1"]) * ELEM and m == M and nn == N
                    trans = badr == A("bb") + (j * env["b0"] + i * env["b1"]) * ELEM and m == N and nn == M
                    if not (same or trans):
                        why.append("B'[i + j ldb] with (m, n) = (%r, %r) is neither b[i][j] nor b[j][i]" % (m, nn))
                    # A' orientation
                    aadr = pa + (i + l * lda) * ELEM
                    a_same = aadr == A("ab") + (i * env["a0"] + l * env["a1"]) * ELEM
                    a_trans = aadr == A("ab") + (l * env["a0"] + i * env["a1"]) * ELEM
                    if not (a_same or a_trans):
                        why.append("A'[i + l lda] is neither a[i][l] nor a[l][i]")
                    if not why:
                        # required: side flips with the orientation of B'; op(A') = conj^cB(a), transposed iff B' is transposed; alpha' = conj^cB(alpha)
                        want_side = (LEFT if sd == LEFT else RIGHT) if same else (RIGHT if sd == LEFT else LEFT)
                        if S != want_side:
                            why.append("side '%s', expected '%s' (B' is %s)" % (chr(S), chr(want_side), "b" if same else "b transposed"))
                        eff_transposed = a_trans != (T != 78)
                        if eff_transposed != trans:
                            why.append("op(A') is %sthe transpose of a but B' is %sthe transpose of b" % ("" if eff_transposed else "not ", "" if trans else "not "))
                        eff_conj = (T == 67) != conjA
                        if eff_conj != conjB:
                            why.append("op(A') %s the logical a although b is %s" % ("conjugates" if eff_conj else "does not conjugate", "conjugated" if conjB else "not conjugated"))
                        logical_upper = fl == UPPER
                        want_upper = logical_upper != a_trans          # 'U' names the triangle of the stored A'
                        if (U == 85) != want_upper:
                            why.append("uplo '%s' names the wrong triangle of A' (logical %s triangle of a, A' is %s)" % (chr(U), fname_, "a transposed" if a_trans else "a"))
                        if Dg != NONUNIT:
                            why.append("diag '%s'" % chr(Dg))
                        want_im = irval.atom("fneg", irval.atom("float", "ai")) if conjB else irval.atom("float", "ai")
                        if are != irval.atom("float", "ar") or aim != want_im:
                            why.append("alpha' = (%r, %r), expected %salpha" % (are, aim, "conj " if conjB else ""))
                    if why:
                        rep.violated(key, "B13.trsm", "trsm<%s> (%s): the xTRSM call ('%s','%s','%s',m=%r,n=%r,lda=%r,ldb=%r) does not solve the stated system: %s"
                                     % (variant, case, chr(S), chr(U), chr(T), m, nn, lda, ldb, "; ".join(why)), dict(case=case, reasons=why))
                    else:
                        rep.ok(key, "B13.trsm", None)
    return n


# -----------------------------------------------------------------------------------------------------------------
# R13.conj: the in-place wrapper gemm(ctx, alpha, a, b, beta, c) with a conjugated output forwards to the fully conjugated problem:
#   conj(c') := alpha a b + beta conj(c')   <=>   c' := conj(alpha) conj(a) conj(b) + conj(beta) c'
WRAP_DRIVER = r"""
#include <boost/multi/adaptors/blas/gemm.hpp>
#include <complex>
namespace multi = boost::multi;
using cplx = std::complex<double>;
struct Ctx { void gemm(char ta, char tb, long m, long n, long k, cplx const* alpha, cplx const* a, long lda, cplx const* b, long ldb, cplx const* beta, cplx* c, long ldc); };
static inline auto mk0() { return multi::layout_t<0>{multi::monostate{}, multi::monostate{}, 0, 1}; }
static inline auto mk1(long s0, long o0, long n0) { return multi::layout_t<1>{mk0(), s0, o0, n0}; }
static inline auto mk2(long s0, long o0, long n0, long s1, long o1, long n1) { return multi::layout_t<2>{mk1(s1, o1, n1), s0, o0, n0}; }
#define WP Ctx* ctx, cplx* ab, long a0, long a1, long M, long K, cplx* bb, long b0, long b1, long N, cplx* cb, long c0, long c1, double ar, double ai, double br, double bi
#define WOPS multi::subarray<cplx, 2> a(mk2(a0, 0, M*a0, a1, 0, K*a1), ab), b(mk2(b0, 0, K*b0, b1, 0, N*b1), bb), c(mk2(c0, 0, M*c0, c1, 0, N*c1), cb)
extern "C" void w_plain(WP) { WOPS; multi::blas::gemm(ctx, cplx{ar, ai}, a, b, cplx{br, bi}, c); }
extern "C" void w_conjc(WP) { WOPS; multi::blas::gemm(ctx, cplx{ar, ai}, a, b, cplx{br, bi}, multi::blas::conj(c)); }
"""


def wrapper_rule(rep, wd):
    src = os.path.join(wd, "wrap.cpp")
    with open(src, "w") as fh:
        fh.write(WRAP_DRIVER)
    text = irval.emit_ir(src, src[:-4] + ".ll", defines=("-UNDEBUG", "-fno-vectorize", "-fno-slp-vectorize", "-mllvm", "-inline-threshold=1000000"))
    funcs, structs = irval.parse_module(text)
    ev = irval.Evaluator(funcs, structs)
    ev.record_external = lambda c: c.startswith("_ZN3Ctx")
    rep.units.add("wrap.cpp")
    M, N, K = 2 + A("mx"), 2 + A("nx"), 2 + A("kx")
    n = 0
    fl = lambda nm: irval.atom("float", nm)
    neg = lambda x: irval.atom("fneg", x)
    # layouts accepted by the respective gemm_n variant: plain = all row-major; conjugated output = conj(a), conj(b) column-major, c row-major
    cases = {"w_plain": ({"a0": K + A("ap"), "a1": P.const(1), "b0": N + A("bp"), "b1": P.const(1), "c0": N + A("cp"), "c1": P.const(1)}, False),
             "w_conjc": ({"a0": P.const(1), "a1": M + A("ap"), "b0": P.const(1), "b1": K + A("bp"), "c0": N + A("cp"), "c1": P.const(1)}, True)}
    for fn, (env, conj) in sorted(cases.items()):
        signs = {"ab": POS, "bb": POS, "cb": POS, "ctx": POS, "mx": NONNEG, "nx": NONNEG, "kx": NONNEG, "ap": NONNEG, "bp": NONNEG, "cp": NONNEG}
        args = [A("ctx"), A("ab"), env["a0"], env["a1"], M, K, A("bb"), env["b0"], env["b1"], N, A("cb"), env["c0"], env["c1"], fl("ar"), fl("ai"), fl("br"), fl("bi")]
        key = "R13.conj:%s" % ("gemm(alpha, a, b, beta, conj(c))" if conj else "gemm(alpha, a, b, beta, c)")
        n += 1
        try:
            ev.run(fn, args, signs)
            calls = list(ev.extcalls)
        except irval.AssertFires as e:
            rep.inconclusive(key, "R13.conj", "the wrapper rejects the layout chosen for this rule: %s" % e)
            continue
        except irval.Inconclusive as e:
            rep.inconclusive(key, "R13.conj", str(e))
            continue
        if len(calls) != 1:
            rep.violated(key, "R13.conj", "%d xGEMM calls" % len(calls), dict())
            continue
        vals, der, stk = calls[0][1], calls[0][2], calls[0][3]

        def cval(ptr):
            return (stk.get(ptr), stk.get(ptr + 8))
        al, be = cval(vals[6]), cval(vals[11])
        want_al = (fl("ar"), neg(fl("ai")) if conj else fl("ai"))
        want_be = (fl("br"), neg(fl("bi")) if conj else fl("bi"))
        ta, tb = int(vals[1].const_value()), int(vals[2].const_value())
        bad = []
        if al != want_al:
            bad.append("alpha' = %r, expected %salpha" % (al, "conj " if conj else ""))
        if be != want_be:
            bad.append("beta' = %r, expected %sbeta" % (be, "conj " if conj else ""))
        if conj and not (ta == 67 and tb == 67):
            bad.append("flags ('%s','%s'), expected both operands conjugated" % (chr(ta), chr(tb)))
        if not conj and (ta == 67 or tb == 67):
            bad.append("flags ('%s','%s') conjugate an operand of the plain product" % (chr(ta), chr(tb)))
        if bad:
            rep.violated(key, "R13.conj", "%s: the forwarded problem is not the (conjugated) original: %s" % (key[9:], "; ".join(bad)), dict(problems=bad))
        else:
            rep.ok(key, "R13.conj", None)
    return n


# -----------------------------------------------------------------------------------------------------------------
# B13.herk: herk(c_side, alpha, a, beta, c): the c_side triangle of c := alpha a a^H + beta c  (a is n x k), against
#   zherk(uplo, trans, n, k, alpha, A', lda, beta, C', ldc):  C' := alpha G G^H + beta C',  G = A' ('N', n x k) or A'^H ('C'), on the uplo triangle of C'
# With C'[i,j] = c[i][j] the call must have G = a; with C'[i,j] = c[j][i] (transposed output) it must have G = conj(a), because a a^H is hermitian.
HERK_DRIVER = r"""
#include <boost/multi/adaptors/blas/herk.hpp>
#include <complex>
namespace multi = boost::multi;
using cplx = std::complex<double>;
static inline auto mk0() { return multi::layout_t<0>{multi::monostate{}, multi::monostate{}, 0, 1}; }
static inline auto mk1(long s0, long o0, long n0) { return multi::layout_t<1>{mk0(), s0, o0, n0}; }
static inline auto mk2(long s0, long o0, long n0, long s1, long o1, long n1) { return multi::layout_t<2>{mk1(s1, o1, n1), s0, o0, n0}; }
#define HP char fl, cplx* ab, long a0, long a1, long Nn, long K, cplx* cb, long c0, long c1, double al, double be
#define HOPS multi::subarray<cplx, 2> a(mk2(a0, 0, Nn*a0, a1, 0, K*a1), ab), c(mk2(c0, 0, Nn*c0, c1, 0, Nn*c1), cb); auto const fill = static_cast<multi::blas::filling>(fl)
extern "C" void h_N(HP) { HOPS; multi::blas::herk(fill, al, a, be, c); }
extern "C" void h_C(HP) { HOPS; multi::blas::herk(fill, al, multi::blas::conj(a), be, c); }
extern "C" void h_enum(long* out) { out[0] = static_cast<char>(multi::blas::filling::lower); out[1] = static_cast<char>(multi::blas::filling::upper); }
"""


def herk_rule(rep, wd):
    src = os.path.join(wd, "herk.cpp")
    with open(src, "w") as fh:
        fh.write(HERK_DRIVER)
    text = irval.emit_ir(src, src[:-4] + ".ll", defines=("-UNDEBUG", "-fno-vectorize", "-fno-slp-vectorize", "-mllvm", "-inline-threshold=1000000"))
    funcs, structs = irval.parse_module(text)
    ev = irval.Evaluator(funcs, structs)
    ev.record_external = lambda c: c == "zherk_"
    rep.units.add("herk.cpp")
    ev.run("h_enum", [A("out")], {"out": POS})
    LOWER, UPPER = int(ev.stores[0].const_value()), int(ev.stores[8].const_value())
    n = 0
    lay = (("row-major", lambda rows, cols, p: (cols + A(p), P.const(1))), ("col-major", lambda rows, cols, p: (P.const(1), rows + A(p))))
    for variant, conjA in (("N", False), ("C", True)):
        for fname_, fl in (("lower", LOWER), ("upper", UPPER)):
            for (an, af), (cn, cf) in itertools.product(lay, repeat=2):
                for nsz in (">",):
                    Nn = 2 + A("nx") if nsz == ">" else P.const(1)
                    K = 2 + A("kx")
                    a0, a1 = af(Nn, K, "ap")
                    c0, c1 = cf(Nn, Nn, "cp")
                    signs = {"ab": POS, "cb": POS, "nx": NONNEG, "kx": NONNEG, "ap": NONNEG, "cp": NONNEG}
                    args = [P.const(fl), A("ab"), a0, a1, Nn, K, A("cb"), c0, c1, irval.atom("float", "al"), irval.atom("float", "be")]
                    case = "%s n%s a:%s c:%s" % (fname_, nsz, an, cn)
                    key = "B13.herk<%s>[%s]" % (variant, case)
                    n += 1
                    try:
                        ev.run("h_" + variant, args, signs)
                        calls = [c for c in ev.extcalls if c[0] == "zherk_"]
                    except irval.AssertFires as e:
                        rep.ok(key, "B13.reject", dict(rejected=str(e)[:80]), nontrivial=False)
                        continue
                    except irval.Inconclusive as e:
                        rep.inconclusive(key, "B13.herk", str(e))
                        continue
                    if len(calls) != 1:
                        rep.violated(key, "B13.herk", "herk<%s> (%s) neither calls zherk nor rejects the combination" % (variant, case), dict(case=case))
                        continue
                    vals, der, stk = calls[0][1], calls[0][2], calls[0][3]

                    def arg(i):
                        return der[i] if der[i] is not None else vals[i]
                    U, T, nn, kk, alp, pa, lda, bet, pc, ldc = (arg(i) for i in range(10))
                    U, T = int(U.const_value()), int(T.const_value())
                    i, j, l = A("i"), A("j"), A("l")
                    ri = {"i": P.const(0), "j": P.const(0)} if nsz == "1" else {}
                    why = []
                    if nn != Nn or kk != K:
                        why.append("(n, k) = (%r, %r), expected (%r, %r)" % (nn, kk, Nn, K))
                    cadr = (pc + (i + j * ldc) * ELEM).subst(ri)
                    c_same = cadr == (A("cb") + (i * c0 + j * c1) * ELEM).subst(ri)
                    c_trans = cadr == (A("cb") + (j * c0 + i * c1) * ELEM).subst(ri)
                    if not (c_same or c_trans):
                        why.append("C'[i + j ldc] is neither c[i][j] nor c[j][i]")
                    gadr = (pa + ((i + l * lda) if T == 78 else (l + i * lda)) * ELEM).subst(ri)
                    if gadr != (A("ab") + (i * a0 + l * a1) * ELEM).subst(ri):
                        why.append("op(A')[i,l] does not address a[i][l]")
                    if not why:
                        g_conj = (T == 67) != conjA                     # G = conj^g_conj(a)
                        ok_same = c_same and not g_conj
                        ok_trans = c_trans and g_conj
                        if nsz == "1":
                            # a 1 x 1 output: a a^H is real, so G = a and G = conj(a) give the same value, and both orientations coincide
                            ok_same = ok_trans = True
                        if not (ok_same or ok_trans):
                            why.append("the product computed is %sa %sa^H but the output is addressed as %s" % ("conj " if g_conj else "", "conj " if g_conj else "",
                                                                                                                     "c transposed" if (c_trans and not c_same) else "c"))
                        upper = fl == UPPER
                        if nsz != "1":
                            want_U = upper if (c_same and not c_trans) else (not upper)
                            if (U == 85) != want_U:
                                why.append("uplo '%s' names the wrong triangle of C' (logical %s triangle, C' is %s)" % (chr(U), fname_, "c" if c_same else "c transposed"))
                        if alp != irval.atom("float", "al") or bet != irval.atom("float", "be"):
                            why.append("alpha / beta are not forwarded")
                    if why:
                        rep.violated(key, "B13.herk", "herk<%s> (%s): the zherk call ('%s','%s',n=%r,k=%r,lda=%r,ldc=%r) does not compute the stated update: %s"
                                     % (variant, case, chr(U), chr(T), nn, kk, lda, ldc, "; ".join(why)), dict(case=case, reasons=why))
                    else:
                        rep.ok(key, "B13.herk", None)
    return n


# -----------------------------------------------------------------------------------------------------------------
# B13.syrk: syrk(c_side, alpha, a, beta, c) for real elements: the c_side triangle of c := alpha a a^T + beta c, against
#   dsyrk(uplo, trans, n, k, alpha, A', lda, beta, C', ldc):  C' := alpha G G^T + beta C',  G = A' ('N') or A'^T ('T'); a a^T is symmetric, so the output may be
#   addressed as c or as c transposed (uplo then names the other triangle)
SYRK_DRIVER = r"""
#include <boost/multi/adaptors/blas/syrk.hpp>
namespace multi = boost::multi;
static inline auto mk0() { return multi::layout_t<0>{multi::monostate{}, multi::monostate{}, 0, 1}; }
static inline auto mk1(long s0, long o0, long n0) { return multi::layout_t<1>{mk0(), s0, o0, n0}; }
static inline auto mk2(long s0, long o0, long n0, long s1, long o1, long n1) { return multi::layout_t<2>{mk1(s1, o1, n1), s0, o0, n0}; }
extern "C" void s_N(char fl, double* ab, long a0, long a1, long Nn, long K, double* cb, long c0, long c1, double al, double be) {
	multi::subarray<double, 2> a(mk2(a0, 0, Nn*a0, a1, 0, K*a1), ab), c(mk2(c0, 0, Nn*c0, c1, 0, Nn*c1), cb);
	multi::blas::syrk(static_cast<multi::blas::filling>(fl), al, a, be, std::move(c));   // an lvalue view does not compile (the function returns its output by value)
}
extern "C" void s_enum(long* out) { out[0] = static_cast<char>(multi::blas::filling::lower); out[1] = static_cast<char>(multi::blas::filling::upper); }
"""


def syrk_rule(rep, wd):
    src = os.path.join(wd, "syrk.cpp")
    with open(src, "w") as fh:
        fh.write(SYRK_DRIVER)
    text = irval.emit_ir(src, src[:-4] + ".ll", defines=("-UNDEBUG", "-fno-vectorize", "-fno-slp-vectorize", "-mllvm", "-inline-threshold=1000000"))
    funcs, structs = irval.parse_module(text)
    ev = irval.Evaluator(funcs, structs)
    ev.record_external = lambda c: c == "dsyrk_"
    rep.units.add("syrk.cpp")
    ev.run("s_enum", [A("out")], {"out": POS})
    LOWER, UPPER = int(ev.stores[0].const_value()), int(ev.stores[8].const_value())
    n = 0
    esz = 8
    lay = (("row-major", lambda rows, cols, p: (cols + A(p), P.const(1))), ("col-major", lambda rows, cols, p: (P.const(1), rows + A(p))))
    for fname_, fl in (("lower", LOWER), ("upper", UPPER)):
        for (an, af), (cn, cf) in itertools.product(lay, repeat=2):
            Nn, K = 2 + A("nx"), 2 + A("kx")
            a0, a1 = af(Nn, K, "ap")
            c0, c1 = cf(Nn, Nn, "cp")
            signs = {"ab": POS, "cb": POS, "nx": NONNEG, "kx": NONNEG, "ap": NONNEG, "cp": NONNEG}
            args = [P.const(fl), A("ab"), a0, a1, Nn, K, A("cb"), c0, c1, irval.atom("float", "al"), irval.atom("float", "be")]
            case = "%s a:%s c:%s" % (fname_, an, cn)
            key = "B13.syrk[%s]" % case
            n += 1
            try:
                ev.run("s_N", args, signs)
                calls = [c for c in ev.extcalls if c[0] == "dsyrk_"]
            except irval.AssertFires as e:
                rep.ok(key, "B13.reject", dict(rejected=str(e)[:80]), nontrivial=False)
                continue
            except irval.Inconclusive as e:
                rep.inconclusive(key, "B13.syrk", str(e))
                continue
            if len(calls) != 1:
                rep.violated(key, "B13.syrk", "syrk (%s) neither calls dsyrk nor rejects the combination" % case, dict(case=case))
                continue
            vals, der = calls[0][1], calls[0][2]

            def arg(i):
                return der[i] if der[i] is not None else vals[i]
            U, T, nn, kk, alp, pa, lda, bet, pc, ldc = (arg(i) for i in range(10))
            U, T = int(U.const_value()), int(T.const_value())
            i, j, l = A("i"), A("j"), A("l")
            why = []
            if nn != Nn or kk != K:
                why.append("(n, k) = (%r, %r), expected (%r, %r)" % (nn, kk, Nn, K))
            cadr = pc + (i + j * ldc) * esz
            c_same = cadr == A("cb") + (i * c0 + j * c1) * esz
            c_trans = cadr == A("cb") + (j * c0 + i * c1) * esz
            if not (c_same or c_trans):
                why.append("C'[i + j ldc] (ldc = %r) is neither c[i][j] nor c[j][i]" % ldc)
            gadr = pa + ((i + l * lda) if T == 78 else (l + i * lda)) * esz
            if gadr != A("ab") + (i * a0 + l * a1) * esz:
                why.append("op(A')[i,l] does not address a[i][l]")
            if not why:
                upper = fl == UPPER
                want_U = upper if c_same else (not upper)
                if (U == 85) != want_U:
                    why.append("uplo '%s' names the wrong triangle of C' (logical %s triangle, C' is %s)" % (chr(U), fname_, "c" if c_same else "c transposed"))
                if alp != irval.atom("float", "al") or bet != irval.atom("float", "be"):
                    why.append("alpha / beta are not forwarded")
            if why:
                rep.violated(key, "B13.syrk", "syrk (%s): the dsyrk call ('%s','%s',n=%r,k=%r,lda=%r,ldc=%r) does not compute the stated update: %s"
                             % (case, chr(U), chr(T), nn, kk, lda, ldc, "; ".join(why)), dict(case=case, reasons=why))
            else:
                rep.ok(key, "B13.syrk", None)
    return n


# -----------------------------------------------------------------------------------------------------------------
# R13.forms: every lazy-range / operator / convenience form of an operation issues exactly the BLAS call sequence of its iterator-level (`_n`)
# form on the same operands (same routine, same counts, operands, increments / leading dimensions, scalars; results stored through the same
# pointer).  The `_n` forms themselves are decided by B13.gemm / B13.gemv / B13.l1; this rule carries those verdicts over to the sibling forms.
FORMS_PRE = r"""
#include <boost/multi/array.hpp>
#include <boost/multi/adaptors/blas/axpy.hpp>
#include <boost/multi/adaptors/blas/copy.hpp>
#include <boost/multi/adaptors/blas/swap.hpp>
#include <boost/multi/adaptors/blas/scal.hpp>
#include <boost/multi/adaptors/blas/dot.hpp>
#include <boost/multi/adaptors/blas/nrm2.hpp>
#include <boost/multi/adaptors/blas/asum.hpp>
#include <boost/multi/adaptors/blas/iamax.hpp>
#include <boost/multi/adaptors/blas/gemm.hpp>
#include <boost/multi/adaptors/blas/gemv.hpp>
#include <boost/multi/adaptors/blas/herk.hpp>
#include <boost/multi/adaptors/blas/syrk.hpp>
#include <complex>
#include <math.h>
#include <stdlib.h>
#include <utility>
namespace multi = boost::multi;
namespace blas = boost::multi::blas;
using cplx = std::complex<double>;
struct Ctx {
	void gemm(char ta, char tb, long m, long n, long k, cplx const* alpha, cplx const* a, long lda, cplx const* b, long ldb, cplx const* beta, cplx* c, long ldc);
	void gemv(char t, long m, long n, cplx const* alpha, cplx const* a, long lda, cplx const* x, long incx, cplx const* beta, cplx* y, long incy);
};
namespace boost::multi::blas { template<> struct is_context<Ctx> : std::true_type {}; template<> struct is_context<Ctx&> : std::true_type {}; }
static inline auto mk0() { return multi::layout_t<0>{multi::monostate{}, multi::monostate{}, 0, 1}; }
static inline auto mk1(long s0, long o0, long n0) { return multi::layout_t<1>{mk0(), s0, o0, n0}; }
static inline auto mk2(long s0, long o0, long n0, long s1, long o1, long n1) { return multi::layout_t<2>{mk1(s1, o1, n1), s0, o0, n0}; }
#define LP double* xb, long x0, double* yb, long y0, long n, double al, double* rp
#define VEC multi::subarray<double, 1> x(mk1(x0, 0, n*x0), xb), y(mk1(y0, 0, n*y0), yb)
#define ZP cplx* xb, long x0, cplx* yb, long y0, long n, cplx* rp
#define ZVEC multi::subarray<cplx, 1> x(mk1(x0, 0, n*x0), xb), y(mk1(y0, 0, n*y0), yb)
#define MP Ctx* ctx, cplx* ab, long a0, long M, long K, cplx* bb, long b0, long N, cplx* cb, long c0, double ar, double ai
#define MOPS multi::subarray<cplx, 2> a(mk2(a0, 0, M*a0, 1, 0, K), ab), b(mk2(b0, 0, K*b0, 1, 0, N), bb), c(mk2(c0, 0, M*c0, 1, 0, N), cb); cplx const al{ar, ai}
#define HP cplx* ab, long a0, long N, long K, cplx* cb, long c0, double al
#define HOPS multi::subarray<cplx, 2> a(mk2(a0, 0, N*a0, 1, 0, K), ab), c(mk2(c0, 0, N*c0, 1, 0, N), cb)
#define SP double* ab, long a0, long N, long K, double* cb, long c0, double al
#define SOPS multi::subarray<double, 2> a(mk2(a0, 0, N*a0, 1, 0, K), ab), c(mk2(c0, 0, N*c0, 1, 0, N), cb)
#define GP Ctx* ctx, cplx* ab, long a0, long M, long K, cplx* xb, long x0, cplx* yb, long y0, double ar, double ai
#define GOPS multi::subarray<cplx, 2> a(mk2(a0, 0, M*a0, 1, 0, K), ab); multi::subarray<cplx, 1> x(mk1(x0, 0, K*x0), xb), y(mk1(y0, 0, M*y0), yb); cplx const al{ar, ai}
using namespace multi::blas::operators;
"""

# (family, parameter macro, operand macro, reference body, [(form name, body)])
FORMS = [
    ("axpy", "LP", "VEC", "blas::axpy_n(al, x.begin(), n, y.begin());", [
        ("axpy(alpha, x, y)", "blas::axpy(al, x, y);"),
        ("y += axpy(alpha, x)", "y += blas::axpy(al, std::as_const(x));"),
        ("y = axpy(alpha, x)", "y = blas::axpy(al, std::as_const(x));"),
        ("copy_n(axpy(alpha, x).begin(), n, y.begin())", "auto&& r = blas::axpy(al, std::as_const(x)); copy_n(r.begin(), n, y.begin());"),
        ("copy(axpy(alpha, x).begin(), end, y.begin())", "auto&& r = blas::axpy(al, std::as_const(x)); copy(r.begin(), r.end(), y.begin());"),
    ]),
    ("axpy(-alpha)", "LP", "VEC", "blas::axpy_n(-al, x.begin(), n, y.begin());", [
        ("y -= axpy(alpha, x)", "y -= blas::axpy(al, std::as_const(x));"),
    ]),
    # a lazy range is an object with a history: after `ax *= s` every consumer of the range must see the rescaled factor (eighth seed round: the
    # factor cached at construction for `+=` / `-=` while `*=` rescales another field)
    ("axpy(alpha*alpha)", "LP", "VEC", "blas::axpy_n(al*al, x.begin(), n, y.begin());", [
        ("ax = axpy(alpha, x); ax *= alpha; y += ax", "auto ax = blas::axpy(al, std::as_const(x)); ax *= al; y += ax;"),
        ("ax = axpy(alpha, x); ax *= alpha; y = ax", "auto ax = blas::axpy(al, std::as_const(x)); ax *= al; y = ax;"),
    ]),
    ("axpy(-(alpha*alpha))", "LP", "VEC", "blas::axpy_n(-(al*al), x.begin(), n, y.begin());", [
        ("ax = axpy(alpha, x); ax *= alpha; y -= ax", "auto ax = blas::axpy(al, std::as_const(x)); ax *= al; y -= ax;"),
    ]),
    ("axpy(1)", "LP", "VEC", "blas::axpy_n(1.0, x.begin(), n, y.begin());", [
        ("axpy(x, y)", "blas::axpy(x, y);"),
        ("y += x", "y += x;"),
    ]),
    ("axpy(-1)", "LP", "VEC", "blas::axpy_n(-1.0, x.begin(), n, y.begin());", [
        ("y -= x", "y -= x;"),
    ]),
    ("copy", "LP", "VEC", "blas::copy_n(x.begin(), n, y.begin());", [
        ("copy(x, y)", "blas::copy(x, y);"),
        ("y = copy(x)", "y = blas::copy(x);"),
        ("y << x", "y << x;"),
    ]),
    ("swap", "LP", "VEC", "blas::swap_n(x.begin(), n, y.begin());", [
        ("swap(x, y)", "blas::swap(x, y);"),
        ("swap(x.begin(), x.end(), y.begin())", "blas::swap(x.begin(), x.end(), y.begin());"),
    ]),
    ("scal", "LP", "VEC", "blas::scal_n(al, x.begin(), n);", [
        ("scal(alpha, x)", "blas::scal(al, x);"),
        ("scal(alpha, x.begin(), x.end())", "blas::scal(al, x.begin(), x.end());"),
        ("x *= scal(alpha)", "x *= blas::scal(al);"),
        ("x *= alpha", "x *= al;"),
    ]),
    ("dot", "LP", "VEC", "blas::dot_n(x.begin(), n, y.begin(), rp);", [
        ("dot(x, y, r)", "blas::dot(x, y, *rp);"),
        ("r = dot(x, y)", "*rp = blas::dot(x, y);"),
        ("r = +dot(x, y)", "*rp = +blas::dot(x, y);"),
        ("r = (x, y)", "*rp = (x, y);"),
    ]),
    ("nrm2", "LP", "VEC", "blas::nrm2_n(x.begin(), n, rp);", [
        ("nrm2(x, r)", "blas::nrm2(x, *rp);"),
        ("r = nrm2(x)", "*rp = blas::nrm2(x);"),
        ("r = +nrm2(x)", "*rp = +blas::nrm2(x);"),
        ("r = abs(x)", "*rp = abs(x);"),
    ]),
    ("nrm2 -> array<T,0>", "LP", "VEC", "multi::array<double, 0> r; blas::nrm2_n(x.begin(), n, r.base());", [
        ("array<T,0> r = nrm2(x)", "multi::array<double, 0> r = blas::nrm2(x);"),
        ("array<T,0> r; r = nrm2(x)", "multi::array<double, 0> r; r = blas::nrm2(x);"),
    ]),
    ("dot -> array<T,0>", "LP", "VEC", "multi::array<double, 0> r; blas::dot_n(x.begin(), n, y.begin(), r.base());", [
        ("array<T,0> r = dot(x, y)", "multi::array<double, 0> r = blas::dot(x, y);"),
        ("array<T,0> r; r = dot(x, y)", "multi::array<double, 0> r; r = blas::dot(x, y);"),
        ("dot(x, y, r) with r 0-D", "multi::array<double, 0> r; blas::dot(x, y, r);"),
    ]),
    ("asum", "LP", "VEC", "blas::asum_n(x.begin(), n, rp);", [
        ("asum(x, r)", "blas::asum(x, *rp);"),       # r = asum(x) does not compile for view operands (its proxy takes the address of the view)
    ]),
    ("iamax", "LP", "VEC", "return blas::iamax_n(x.begin(), n);", [
        ("iamax(x)", "return blas::iamax(x);"),
        ("iamax(x.begin(), x.end())", "return blas::iamax(x.begin(), x.end());"),
        ("amax(x) - x.begin()", "return blas::amax(x) - x.begin();"),
    ]),
    ("dot<z>", "ZP", "ZVEC", "blas::dot_n(x.begin(), n, y.begin(), rp);", [
        ("dot(x, y, r)", "blas::dot(x, y, *rp);"),
        ("r = dot(x, y)", "*rp = blas::dot(x, y);"),
    ]),
    ("dot<z>(conj x)", "ZP", "ZVEC", "blas::dot_n(blas::conj(x).begin(), n, y.begin(), rp);", [
        ("dot(C(x), y, r)", "blas::dot(blas::C(x), y, *rp);"),
        ("r = dot(conj(x), y)", "*rp = blas::dot(blas::conj(x), y);"),
    ]),
    ("dot<z>(conj y)", "ZP", "ZVEC", "blas::dot_n(x.begin(), n, blas::conj(y).begin(), rp);", [
        ("dot(x, C(y), r)", "blas::dot(x, blas::C(y), *rp);"),
        ("r = dot(x, conj(y))", "*rp = blas::dot(x, blas::conj(y));"),
    ]),
    ("gemm(beta=0)", "MP", "MOPS", "blas::gemm_n(ctx, al, a.begin(), M, b.begin(), cplx{0.0, 0.0}, c.begin());", [
        ("gemm(alpha, a, b, 0, c)", "blas::gemm(ctx, al, a, b, cplx{0.0, 0.0}, c);"),
        ("c = gemm(alpha, a, b)", "c = blas::gemm(ctx, al, a, b);"),
        ("copy_n(gemm(alpha, a, b).begin(), M, c.begin())", "auto&& r = blas::gemm(ctx, al, a, b); copy_n(r.begin(), M, c.begin());"),
        ("copy(gemm(alpha, a, b).begin(), end, c.begin())", "auto&& r = blas::gemm(ctx, al, a, b); copy(r.begin(), r.end(), c.begin());"),
        ("uninitialized_copy_n(gemm(alpha, a, b).begin(), M, c.begin())", "auto&& r = blas::gemm(ctx, al, a, b); uninitialized_copy_n(r.begin(), M, c.begin());"),
    ]),
    ("gemm(beta=1)", "MP", "MOPS", "blas::gemm_n(ctx, al, a.begin(), M, b.begin(), cplx{1.0, 0.0}, c.begin());", [
        ("gemm(alpha, a, b, 1, c)", "blas::gemm(ctx, al, a, b, cplx{1.0, 0.0}, c);"),
        ("c += gemm(alpha, a, b)", "c += blas::gemm(ctx, al, a, b);"),
    ]),
    ("herk(lower, beta=0)", "HP", "HOPS", "blas::herk(blas::filling::lower, al, a, 0.0, c);", [
        ("herk(lower, alpha, a, c)", "blas::herk(blas::filling::lower, al, a, c);"),
    ]),
    ("herk(upper, beta=0)", "HP", "HOPS", "blas::herk(blas::filling::upper, al, a, 0.0, c);", [
        ("herk(upper, alpha, a, c)", "blas::herk(blas::filling::upper, al, a, c);"),
    ]),
    ("herk(both triangles)", "HP", "HOPS", "blas::herk(blas::filling::upper, al, a, 0.0, c); blas::herk(blas::filling::lower, al, a, 0.0, c);", [
        ("herk(alpha, a, c)", "blas::herk(al, a, c);"),
    ]),
    ("herk(both triangles, alpha=1)", "HP", "HOPS", "blas::herk(blas::filling::upper, 1.0, a, 0.0, c); blas::herk(blas::filling::lower, 1.0, a, 0.0, c);", [
        ("herk(a, c)", "blas::herk(a, c);"),
    ]),
    ("syrk(lower, beta=0)", "SP", "SOPS", "blas::syrk(blas::filling::lower, al, a, 0.0, std::move(c));", [
        ("syrk(lower, alpha, a, c)", "blas::syrk(blas::filling::lower, al, a, std::move(c));"),
    ]),
    ("syrk(upper, beta=0)", "SP", "SOPS", "blas::syrk(blas::filling::upper, al, a, 0.0, std::move(c));", [
        ("syrk(upper, alpha, a, c)", "blas::syrk(blas::filling::upper, al, a, std::move(c));"),
    ]),
    ("gemv(beta=0)", "GP", "GOPS", "blas::gemv_n(ctx, al, a.begin(), M, x.begin(), cplx{0.0, 0.0}, y.begin());", [
        ("gemv(alpha, a, x, 0, y)", "blas::gemv(ctx, al, a, x, cplx{0.0, 0.0}, y);"),
        ("y = gemv(alpha, a, x)", "y = blas::gemv(ctx, al, a, x);"),
        ("copy_n(gemv(alpha, a, x).begin(), M, y.begin())", "auto&& r = blas::gemv(ctx, al, a, x); copy_n(r.begin(), M, y.begin());"),
        ("copy(gemv(alpha, a, x).begin(), end, y.begin())", "auto&& r = blas::gemv(ctx, al, a, x); copy(r.begin(), r.end(), y.begin());"),
    ]),
    ("gemv(beta=1)", "GP", "GOPS", "blas::gemv_n(ctx, al, a.begin(), M, x.begin(), cplx{1.0, 0.0}, y.begin());", [
        ("gemv(alpha, a, x, 1, y)", "blas::gemv(ctx, al, a, x, cplx{1.0, 0.0}, y);"),
        ("y += gemv(alpha, a, x)", "y += blas::gemv(ctx, al, a, x);"),
    ]),
]

# argument positions of the recorded external routines that are scalars passed by address: (position, number of 8-byte words)
FORM_ROUTINES = {
    "daxpy_": {0: 1, 1: 1, 3: 1, 5: 1}, "dcopy_": {0: 1, 2: 1, 4: 1}, "dswap_": {0: 1, 2: 1, 4: 1}, "dscal_": {0: 1, 1: 1, 3: 1},
    "ddot_": {0: 1, 2: 1, 4: 1}, "dnrm2_": {0: 1, 2: 1}, "dasum_": {0: 1, 2: 1}, "idamax_": {0: 1, 2: 1},
    "zherk_": {0: 1, 1: 1, 2: 1, 3: 1, 4: 1, 6: 1, 7: 1, 9: 1}, "dsyrk_": {0: 1, 1: 1, 2: 1, 3: 1, 4: 1, 6: 1, 7: 1, 9: 1},
    "zdotc_": {0: 1, 2: 1, 4: 1}, "zdotu_": {0: 1, 2: 1, 4: 1}, "zgemv_": {0: 1, 1: 1, 2: 1, 3: 2, 5: 1, 7: 1, 8: 2, 10: 1},
    "_ZN3Ctx4gemmEcclllPKSt7complexIdES3_lS3_lS3_PS1_l": {6: 2, 11: 2}, "_ZN3Ctx4gemvEcllPKSt7complexIdES3_lS3_lS3_PS1_l": {4: 2, 9: 2},
}


FORM_OUTPUTS = {"zgemv_": 9}
FORM_HEAP = ("_Znwm", "_ZdlPv", "_ZdlPvm")      # storage of a 0-dimensional result array: opaque handles, not compared


def forms_rule(rep, wd):
    fns = []
    out = [FORMS_PRE]
    for fi, (fam, params, ops_, ref, forms) in enumerate(FORMS):
        ret = "long" if ref.startswith("return") else "void"
        out.append('extern "C" %s f%d_ref(%s) { %s; %s }' % (ret, fi, params, ops_, ref))
        for k, (name, body) in enumerate(forms):
            out.append('extern "C" %s f%d_%d(%s) { %s; %s }' % (ret, fi, k, params, ops_, body))
            fns.append((fi, k, fam, name, params))
    n = 0
    # one translation unit per family so that a form that stops compiling is reported for that family alone
    mods = {}
    for fi, (fam, params, ops_, ref, forms) in enumerate(FORMS):
        src = os.path.join(wd, "forms_%d.cpp" % fi)
        with open(src, "w") as fh:
            fh.write(FORMS_PRE + "\n".join(l for l in out[1:] if l.startswith('extern "C" %s f%d_' % ("long" if ref.startswith("return") else "void", fi))) + "\n")
        mods[fi] = src

    def build(fi):
        try:
            text = irval.emit_ir(mods[fi], mods[fi][:-4] + ".ll", defines=("-DNDEBUG", "-fno-vectorize", "-fno-slp-vectorize", "-mllvm", "-inline-threshold=1000000"))
            return fi, irval.parse_module(text), None
        except common.AnalysisBroken as e:
            return fi, None, str(e)
    built = {}
    for fi, mod, err in witness.parallel(build, sorted(mods)):
        built[fi] = (mod, err)
        rep.units.add("forms_%d.cpp" % fi)
    fl = lambda nm: irval.atom("float", nm)
    for fi, (fam, params, ops_, ref, forms) in enumerate(FORMS):
        mod, err = built[fi]
        if mod is None:
            m = re.search(r"error: (.*)", err)
            rep.break_("R13.forms: the forms of %s do not compile: %s" % (fam, (m.group(1) if m else err)[:200]))
            continue
        ev = irval.Evaluator(*mod)
        ev.record_external = lambda c: c in FORM_ROUTINES or c in FORM_HEAP or c.startswith("llvm.memmove") or c.startswith("llvm.memcpy")

        def model(callee, vals, derefs, idx):
            # output parameter of the routine (the result vector of the 1 x n matrix-vector form of the complex dot product)
            outp = FORM_OUTPUTS.get(callee)
            if outp is None or not isinstance(vals[outp], P) or not any(sy.startswith("stack") for sy in vals[outp].symbols()):
                return []
            return [(vals[outp] + 8 * j, irval.atom("extout", callee, idx, j)) for j in range(2)]
        ev.external_model = model
        signs = {"xb": POS, "yb": POS, "dxy": POS, "xp": NONNEG, "yp": NONNEG, "nn": NONNEG, "rp": POS, "ctx": POS, "ab": POS, "bb": POS, "cb": POS,
                 "mx": NONNEG, "nx": NONNEG, "kx": NONNEG, "ap": NONNEG, "bp": NONNEG, "cp": NONNEG}
        M, N, K = 2 + A("mx"), 2 + A("nx"), 2 + A("kx")
        if params in ("LP", "ZP"):
            arglists = []
            for xs, ys in itertools.product(("1", ">1"), repeat=2):
                x0 = P.const(1) if xs == "1" else 2 + A("xp")
                y0 = P.const(1) if ys == "1" else 2 + A("yp")
                al = [fl("al")] if params == "LP" else []
                arglists.append(("incx%s incy%s" % (xs, ys), [A("xb"), x0, A("xb") + A("dxy"), y0, 1 + A("nn")] + al + [A("rp")]))
        elif params in ("HP", "SP"):
            arglists = [("row-major padded", [A("ab"), K + A("ap"), N, K, A("cb"), N + A("cp"), fl("al")])]
        elif params == "MP":
            arglists = [("row-major padded", [A("ctx"), A("ab"), K + A("ap"), M, K, A("bb"), N + A("bp"), N, A("cb"), N + A("cp"), fl("ar"), fl("ai")])]
        else:
            arglists = [("row-major padded, inc%s" % t, [A("ctx"), A("ab"), K + A("ap"), M, K, A("xb"), x0, A("yb"), y0, fl("ar"), fl("ai")])
                        for t, x0, y0 in (("1", P.const(1), P.const(1)), (">1", 2 + A("xp"), 2 + A("yp")))]

        def fzero(w_):
            return P.const(0) if w_ == irval.atom("float", "0.000000e+00") else w_

        def observe(fn, args):
            r = ev.run(fn, args, signs)
            calls = []
            for callee, vals, der, stk in ev.extcalls:
                if callee in FORM_HEAP:
                    calls.append((callee, ()))
                    continue
                if callee.startswith("llvm.mem"):
                    calls.append((callee.split(".p0")[0], tuple(vals[:3])))      # a block move of element storage: destination, source, bytes
                    continue
                norm = []
                for i, v in enumerate(vals):
                    w = FORM_ROUTINES[callee].get(i)
                    if w is None:
                        norm.append(v)
                    else:
                        norm.append(tuple(fzero(stk.get(v + 8 * j)) for j in range(w)) if isinstance(v, P) and v in stk else ("not a stack temporary written on this path", v))
                calls.append((callee, tuple(norm)))
            mem = {k_: v for k_, v in getattr(ev, "mem", {}).items() if not any(sy.startswith("stack") for sy in k_.symbols())}
            # a result computed into a local and then copied out is the same as passing the destination to the routine
            for ci, (callee, nargs) in enumerate(calls):
                outp = FORM_OUTPUTS.get(callee)
                if outp is None:
                    continue
                for dest in [k_ for k_, v in mem.items() if v == irval.atom("extout", callee, ci + 1, 0)]:
                    if mem.get(dest + 8) == irval.atom("extout", callee, ci + 1, 1):
                        nargs = list(nargs)
                        nargs[outp] = dest
                        calls[ci] = (callee, tuple(nargs))
                        del mem[dest], mem[dest + 8]
            return calls, mem, (r if isinstance(r, P) else None)
        for tag, args in arglists:
            try:
                want = observe("f%d_ref" % fi, args)
            except (irval.Inconclusive, irval.AssertFires) as e:
                rep.inconclusive("R13.forms:%s[%s]" % (fam, tag), "R13.forms", "reference form: %s" % e)
                continue
            if not want[0]:
                rep.inconclusive("R13.forms:%s[%s]" % (fam, tag), "R13.forms", "the reference form issues no recorded BLAS call")
                continue
            for k, (name, body) in enumerate(forms):
                key = "R13.forms:%s ~ %s[%s]" % (name, fam, tag)
                n += 1
                try:
                    got = observe("f%d_%d" % (fi, k), args)
                except irval.AssertFires as e:
                    rep.violated(key, "R13.forms", "%s aborts / throws on operands its iterator-level form accepts: %s" % (name, e), dict(body=body))
                    continue
                except irval.Inconclusive as e:
                    rep.inconclusive(key, "R13.forms", str(e))
                    continue
                bad = []
                if [c[0] for c in got[0]] != [c[0] for c in want[0]]:
                    bad.append("calls %s, the iterator-level form issues %s" % ([c[0] for c in got[0]], [c[0] for c in want[0]]))
                else:
                    for (cg, ag), (cw, aw) in zip(got[0], want[0]):
                        for i, (x_, y_) in enumerate(zip(ag, aw)):
                            if x_ != y_:
                                bad.append("%s argument %d is %r, the iterator-level form passes %r" % (cg.split("_")[0] if cg.endswith("_") else "Ctx::" + ("gemm" if "gemm" in cg else "gemv"), i, x_, y_))
                if got[1] != want[1]:
                    bad.append("result stored as %r, the iterator-level form stores %r" % (got[1], want[1]))
                if got[2] != want[2]:
                    bad.append("returns %r, the iterator-level form returns %r" % (got[2], want[2]))
                if bad:
                    rep.violated(key, "R13.forms", "%s does not issue the BLAS call of %s: %s" % (name, ref.rstrip(";"), "; ".join(bad[:4])), dict(problems=bad, body=body, reference=ref))
                else:
                    rep.ok(key, "R13.forms", None)
    return n


def run(tier):
    rep = common.Report("C13", tier, "other",
                        "one obligation per (dispatcher variant, size case, layout case of each operand): the BLAS call issued on that case denotes the product, "
                        "or the case is rejected; one per argument-list class of the context's gemm / gemv wrappers; distinct = distinct cases")
    wd = common.workdir("c13")
    src = os.path.join(wd, "blas.cpp")
    with open(src, "w") as fh:
        fh.write(DRIVER)
    text = irval.emit_ir(src, src[:-4] + ".ll", defines=("-UNDEBUG", "-fno-vectorize", "-fno-slp-vectorize", "-mllvm", "-inline-threshold=1000000"))
    funcs, structs = irval.parse_module(text)
    ev = irval.Evaluator(funcs, structs)
    ev.record_external = lambda c: c.startswith("_ZN3Ctx") or c in ("zgemm_", "zgemv_")
    rep.units.add("blas.cpp")
    core, ncore = core_tables(rep, ev)
    rep.extra["context_rejects_illegal"] = {op: "%d of %d illegal argument-list classes rejected" % (sum(1 for v in d.values() if v), len(d)) for op, d in core.items()}
    leaves = {}
    ncases = 0
    nrej_expressible = 0
    for variant, conjA, conjB in (("NN", False, False), ("NC", False, True), ("CN", True, False), ("CC", True, True)):
        fn = "g_" + variant
        for big, senv, ssigns in size_cases(tier):
            M, N, K = (A(x).subst(senv) for x in "MNK")
            for (an, aenv, asg), (bn, benv, bsg), (cn, cenv, csg) in itertools.product(
                    matrix_cases("a", M, K, big[0], big[2]), matrix_cases("b", K, N, big[2], big[1]), matrix_cases("c", M, N, big[0], big[1])):
                env = dict(senv)
                env.update(aenv)
                env.update(benv)
                env.update(cenv)
                signs = {"ab": POS, "bb": POS, "cb": POS, "ctx": POS}
                for sg in (ssigns, asg, bsg, csg):
                    signs.update(sg)
                args = [A("ctx"), A("ab"), A("a0").subst(env), A("a1").subst(env), M, K, A("bb"), A("b0").subst(env), A("b1").subst(env), N,
                        A("cb"), A("c0").subst(env), A("c1").subst(env), irval.atom("float", "al"), irval.atom("float", "be")]
                ncases += 1
                case = "sizes(M,N,K)=%s a:%s b:%s c:%s" % ("".join(big), an, bn, cn)
                key = "B13.gemm_n<%s>[%s]" % (variant, case)
                empty = "0" in (big[0], big[1])          # no element of c: nothing to compute, any outcome is the (empty) product
                try:
                    ev.run(fn, args, signs)
                    calls = list(ev.extcalls)
                except irval.AssertFires as e:
                    rep.ok(key, "B13.reject", dict(rejected=str(e)[:80]), nontrivial=False)
                    leaves.setdefault((variant, "rejected"), 0)
                    leaves[(variant, "rejected")] += 1
                    continue
                except irval.Inconclusive as e:
                    rep.inconclusive(key, "B13.gemm", str(e))
                    continue
                if empty:
                    rep.ok(key, "B13.gemm", dict(note="empty output"), nontrivial=False)
                    continue
                if len(calls) != 1:
                    rep.violated("B13.gemm_n<%s>:no-call[%s]" % (variant, case), "B13.gemm",
                                 "gemm_n<%s> returns without calling BLAS and without rejecting the combination (%s): the product is silently not computed" % (variant, case),
                                 dict(case=case, calls=len(calls)))
                    continue
                call = calls[0][1]
                sig = "('%s','%s',m=%r,n=%r,k=%r,lda=%r,ldb=%r,ldc=%r)" % (chr(int(call[1].const_value())), chr(int(call[2].const_value())),
                                                                          call[3], call[4], call[5], call[8], call[10], call[13])
                leaves.setdefault((variant, sig), 0)
                leaves[(variant, sig)] += 1
                why = gemm_identities(call, env, big, conjA, conjB)
                lds = gemm_ld_status(call, signs)
                tai, tbi = int(call[1].const_value()), int(call[2].const_value())
                ldv = {"lda": call[8], "ldb": call[10], "ldc": call[13]}
                rws = {"lda": call[3] if tai == 78 else call[5], "ldb": call[5] if tbi == 78 else call[4], "ldc": call[3]}

                def ctx_rejects(nm):
                    return core_rejects_gemm(core, nm, tai, tbi, call[3], call[4], call[5], ldv[nm], pmax1(rws[nm], signs), signs)
                rejected = [nm for nm, st in lds.items() if st == "illegal" and ctx_rejects(nm)]
                if rejected:
                    # the context throws (assertion-enabled builds) on every member of the class
                    if not why:
                        nrej_expressible += 1
                    rep.ok(key, "B13.reject", dict(rejected="context rejects %s" % rejected[0], call=sig), nontrivial=False)
                    continue
                if not why and all(st == "legal" or ctx_rejects(nm) for nm, st in lds.items()):
                    rep.ok(key, "B13.gemm", None)
                    rep.sample(dict(case=key, call=sig))
                    continue
                wit = gemm_witness(call, env, signs, big, conjA, conjB, core)
                if wit is None:
                    if not why:
                        rep.ok(key, "B13.gemm", None)
                    else:
                        rep.inconclusive(key, "B13.gemm", "identities fail (%s) but no accepted member of the case class was found among small instances" % " | ".join(why)[:200])
                    continue
                rep.violated(key, "B13.gemm", "the xGEMM call %s issued for %s is accepted by the context and is not the product: %s; e.g. %s"
                             % (sig, case, (" | ".join(why) or wit["failure"])[:400], {k_: v_ for k_, v_ in wit.items() if k_ != "call"}),
                             dict(case=case, call=sig, reason=why, instance=wit))
    for variant, conjA in (("N", False), ("C", True)):
        fn = "v_" + variant
        for big, senv, ssigns in size_cases(tier):
            if big[1] != "1":
                continue
            M, N, K = (A(x).subst(senv) for x in "MNK")
            for (an, aenv, asg) in matrix_cases("a", M, K, big[0], big[2]):
                for xs, ys in itertools.product(("1", ">1"), repeat=2):
                    env = dict(senv)
                    env.update(aenv)
                    signs = {"ab": POS, "xb": POS, "yb": POS, "ctx": POS, "xp": NONNEG, "yp": NONNEG}
                    signs.update(ssigns)
                    signs.update(asg)
                    env["x0"] = P.const(1) if xs == "1" else 2 + A("xp")
                    env["y0"] = P.const(1) if ys == "1" else 2 + A("yp")
                    env["yb"] = A("xb") + A("dxy")
                    signs["dxy"] = POS
                    args = [A("ctx"), A("ab"), A("a0").subst(env), A("a1").subst(env), M, K, A("xb"), env["x0"], env["yb"], env["y0"], irval.atom("float", "al"), irval.atom("float", "be")]
                    ncases += 1
                    case = "sizes(M,K)=%s%s a:%s incx%s incy%s" % (big[0], big[2], an, xs, ys)
                    key = "B13.gemv_n<%s>[%s]" % (variant, case)
                    try:
                        ev.run(fn, args, signs)
                        calls = list(ev.extcalls)
                    except irval.AssertFires as e:
                        rep.ok(key, "B13.reject", dict(rejected=str(e)[:80]), nontrivial=False)
                        continue
                    except irval.Inconclusive as e:
                        rep.inconclusive(key, "B13.gemv", str(e))
                        continue
                    if big[0] == "0":
                        rep.ok(key, "B13.gemv", dict(note="empty output"), nontrivial=False)
                        continue
                    if len(calls) != 1:
                        rep.violated("B13.gemv_n<%s>:no-call[%s]" % (variant, case), "B13.gemv", "gemv_n<%s> neither calls BLAS nor rejects (%s)" % (variant, case), dict(case=case))
                        continue
                    call = calls[0][1]
                    why = gemv_identities(call, env, big, conjA)
                    lda, rows = call[6], call[2]
                    if ge(lda, rows, signs) and ge(lda, P.const(1), signs):
                        st = "legal"
                    elif lt(lda, rows, signs) or lt(lda, P.const(1), signs):
                        st = "illegal"
                    else:
                        st = "depends"
                    vrej = st != "legal" and core_rejects_gemv(core, int(call[1].const_value()), call[2], call[3], lda, pmax1(rows, signs), signs)
                    if st == "illegal" and vrej:
                        rep.ok(key, "B13.reject", dict(rejected="context rejects lda"), nontrivial=False)
                        continue
                    if st != "legal" and not vrej:
                        why = why + ["lda = %r %s >= max(1, %r) and the context forwards an illegal lda: the BLAS error handler returns without computing y"
                                     % (lda, "is not" if st == "illegal" else "need not be", rows)]
                    if not why:
                        rep.ok(key, "B13.gemv", None)
                    else:
                        rep.violated(key, "B13.gemv", "the xGEMV call issued for %s is not the product: %s" % (case, "; ".join(why)[:300]), dict(case=case, reason=why))
    ns = syrk_rule(rep, wd)
    rep.need_instances("B13.syrk cases", ns, 8)
    nh = herk_rule(rep, wd)
    rep.need_instances("B13.herk cases", nh, 16)
    nw = wrapper_rule(rep, wd)
    rep.need_instances("R13.conj wrapper cases", nw, 2)
    ntr = trsm_rule(rep, wd)
    rep.need_instances("B13.trsm cases", ntr, 48)
    nl1 = level1(rep, wd)
    rep.need_instances("B13.l1 wrapper cases", nl1, 100)
    nf = forms_rule(rep, wd)
    rep.need_instances("R13.forms sibling forms compared", nf, 120)
    rep.extra["distinct_blas_calls"] = {"%s %s" % k: v for k, v in sorted(leaves.items())}
    rep.extra["rejected_although_expressible"] = nrej_expressible
    rep.need_instances("B13 cases evaluated", ncases, 300)
    rep.need_instances("B13.core argument-list classes", ncore, 1700)
    rep.need_instances("B13 distinct xGEMM argument shapes", len([k for k in leaves if k[1] != "rejected"]), 20)
    rep.explanation = ("The dispatch trees of gemm_n (4 variants) and gemv_n (2 variants) are evaluated symbolically (optimised IR, polynomial domain) under an "
                       "exhaustive case split of the guard quantities over valid BLAS operands; the issued xGEMM / xGEMV argument list is checked against the "
                       "reference-BLAS index contract by polynomial identities (addresses of all three operands, dimensions, trans / conjugation flags); the single-call level-1 wrappers (axpy, copy, swap, scal, dot / dotc, nrm2, asum, iamax) "
                       "are checked for argument agreement (count, base, stride of each vector, conjugated operand first in zdotc). "
                       "The context's own wrappers (core::gemm, core::gemv) are evaluated the same way: a legal list reaches the Fortran symbol unchanged, and "
                       "which illegal leading dimensions they reject is read off and used to classify dispatcher cases whose leading dimension is illegal "
                       "(rejected = conforming; forwarded = the BLAS error handler returns without computing). Every violation carries a concrete member of its "
                       "case class. trsm, herk and syrk are decided the same way on their own case lists, and every lazy-range / operator / convenience form is compared "
                       "with the iterator-level form of its operation (same BLAS calls). Decides the dispatch tables and argument agreement, not numerical results.")
    rep.trusted = ["clang 14 -O2 with forced inlining (normaliser)", "the reference-BLAS contract encoded in checks/c13.py (gemm_identities / gemv_identities, ld >= max(1, rows))",
                   "operand validity model: one unit stride, the other >= the extent when there is more than one row/column, strides positive",
                   "no-overflow assumption of the polynomial domain", "vlib/irval.py, vlib/poly.py"]
    return rep

"""C02 — iterators and flat element ranges obey the random-access laws (engine L obligations + type-level witnesses).

O02.iter(D,kind)  array_iterator laws as identities on an arbitrary symbolic view: ++/-- inverse, (it+=n)-=n, (it+n)-it == n,
                  it[n] == *(it+n), it<jt <=> jt-it>0, *(begin()+m) == v[f+m], end()-begin() == size, copies/assigned iterators,
                  const and mutable iterators to one position compare equal.
O02.flat(D)       elements(): k-th position is the element at the k-th index tuple in canonical order for ANY (non-contiguous)
                  descriptor: elements()[k], *(begin()+k), begin()[k], front/back, size, (it+a)-=b, it=jt.
O02.canon(D)      next_canonical / prev_canonical are the mixed-radix successor / predecessor for every carry pattern (2^D cases),
                  to_linear(from_linear(k)) == k.
W02               iterator typedef / comparability contract at the type level.
"""
import itertools
import os
import re

from vlib import common, viewops, viewspec as vs, irval, witness
from vlib.poly import Poly as P, POS, NEG, ZERO, NONNEG, NONZERO

A = viewops.A

EXTRA = r"""
inline double& idref(double& x) { return x; }
template<class R> inline long daddr(R&& r, double const* base, long j1, long j2, long j3) {
	if constexpr(std::is_arithmetic_v<std::decay_t<R>>) { return eaddr(r, base); }
	else {
		constexpr int D = std::decay_t<R>::rank_v;
		if constexpr(D == 1) { return eaddr(r[j1], base); }
		if constexpr(D == 2) { return eaddr(r[j1][j2], base); }
		if constexpr(D == 3) { return eaddr(r[j1][j2][j3], base); }
	}
}
"""


def prod(xs):
    r = P.const(1)
    for x in xs:
        r = r * x
    return r


def add_iter(cr, D, zb, kind):
    # "moved" / "transformed": iterators of element_moved() and of a reference-yielding element_transformed() view, whose element pointers are the
    # pointer adaptors move_ptr / transform_ptr of utility.hpp
    beg = {"mutable": "v.begin()", "const": "std::as_const(v).begin()", "move": "v.mbegin()",
           "moved": "v.element_moved().begin()", "transformed": "v.element_transformed(&idref).begin()"}[kind]
    end = {"mutable": "v.end()", "const": "std::as_const(v).end()", "move": "v.mend()",
           "moved": "v.element_moved().end()", "transformed": "v.element_transformed(&idref).end()"}[kind]
    J = "j1, j2, j3"
    body = """
	auto const b0 = %(beg)s; auto const e0 = %(end)s; auto it = b0 + m;
	out[0] = daddr(*it, base, %(J)s);
	out[1] = e0 - b0;
	out[2] = (it + n) - it;
	{ auto jt = it; ++jt; out[3] = jt - it; out[4] = daddr(*jt, base, %(J)s); --jt; out[5] = jt - it; out[6] = daddr(*jt, base, %(J)s); }
	{ auto jt = it; jt += n; out[7] = jt - b0; jt -= n; out[8] = jt - b0; out[9] = daddr(*jt, base, %(J)s); }
	out[10] = daddr(it[n], base, %(J)s); out[11] = daddr(*(it + n), base, %(J)s);
	out[12] = (it < (it + n)) ? 1 : 0;
	out[13] = (((it + n) - n) == it) ? 1 : 0;
	{ auto kt = it; out[15] = kt - it; kt = it + n; out[16] = kt - it; out[14] = daddr(*kt, base, %(J)s); }
	out[17] = it - b0;
	out[18] = ((b0 + v.size()) == e0) ? 1 : 0;
	out[19] = ((it + n) > it) ? 1 : 0; out[20] = (it <= it) ? 1 : 0; out[21] = (it != (it + n)) ? 1 : 0;
	{ auto jt = it; auto r1 = jt++; out[22] = jt - r1; auto r2 = jt--; out[23] = r2 - jt; }
	out[26] = (it >= it) ? 1 : 0; out[27] = (it <= (it + n)) ? 1 : 0; out[28] = ((it + n) >= it) ? 1 : 0; out[29] = (it < it) ? 1 : 0; out[30] = (it > it) ? 1 : 0;
	out[31] = (it == it) ? 1 : 0; out[32] = (it != it) ? 1 : 0; out[33] = ((it + n) < it) ? 1 : 0; out[34] = ((it + n) == it) ? 1 : 0;
""" % dict(beg=beg, end=end, J=J)
    if kind == "mutable":
        body += "\tout[24] = (v.begin() == std::as_const(v).begin()) ? 1 : 0; out[25] = (std::as_const(v).begin() + m == it) ? 1 : 0;\n"
    v = vs.root(D, zb)
    f0 = v.dims[0].f
    js = [A("j1"), A("j2"), A("j3")][:D - 1]

    def addr(i0):
        return v.addr([i0] + js) * viewops.ELEM

    def wants(case, env):
        nsign = case["__n"]
        gt = 1 if nsign == POS else 0
        w = {
            (0, "*(begin+m)"): addr(f0 + A("m")), (1, "end-begin"): v.dims[0].z, (2, "(it+n)-it"): A("n"),
            (3, "++:pos"): P.const(1), (4, "++:addr"): addr(f0 + A("m") + 1), (5, "++--:pos"): P.const(0), (6, "++--:addr"): addr(f0 + A("m")),
            (7, "+=:pos"): A("m") + A("n"), (8, "+=-=:pos"): A("m"), (9, "+=-=:addr"): addr(f0 + A("m")),
            (10, "it[n]"): addr(f0 + A("m") + A("n")), (11, "*(it+n)"): addr(f0 + A("m") + A("n")),
            (12, "it<it+n"): P.const(gt), (13, "(it+n)-n==it"): P.const(1),
            (15, "copy:pos"): P.const(0), (16, "assign:pos"): A("n"), (14, "assign:addr"): addr(f0 + A("m") + A("n")),
            (17, "it-begin"): A("m"), (18, "begin+size==end"): P.const(1),
            (19, "it+n>it"): P.const(gt), (20, "it<=it"): P.const(1), (21, "it!=it+n"): P.const(0 if nsign == ZERO else 1),
            (22, "post++"): P.const(1), (23, "post--"): P.const(1),
            (26, "it>=it"): P.const(1), (27, "it<=it+n"): P.const(0 if nsign == NEG else 1), (28, "it+n>=it"): P.const(0 if nsign == NEG else 1),
            (29, "it<it"): P.const(0), (30, "it>it"): P.const(0), (31, "it==it"): P.const(1), (32, "it!=it"): P.const(0),
            (33, "it+n<it"): P.const(1 if nsign == NEG else 0), (34, "it+n==it"): P.const(1 if nsign == ZERO else 0),
        }
        if kind == "mutable":
            w[(24, "begin==cbegin")] = P.const(1)
            w[(25, "cbegin+m==it")] = P.const(1)
        return w
    cases = [dict(__n=POS, __signs={"n": POS}, __name="n>0"), dict(__n=NEG, __signs={"n": NEG}, __name="n<0"),
             dict({"n": P.const(0)}, __n=ZERO, __name="n=0")]
    cr.add("O02.iter(D=%d,%s)" % (D, kind), "O02.iter", D, ["m", "n", "j1", "j2", "j3"], body, wants, cases=cases)


def add_iter_empty(cr, D, zb):
    """zero-size corners of begin() / end(): an empty leading extension (whatever the index base) and, for D > 1, an empty inner extension: the two
    iterators delimit exactly size() positions and compare equal when there is none"""
    v = vs.root(D, zb)
    body = ("out[0] = v.end() - v.begin(); out[1] = (v.begin() == v.end()) ? 1 : 0; out[2] = std::as_const(v).end() - std::as_const(v).begin(); "
            "out[3] = v.size(); out[4] = (v.begin() + v.size() == v.end()) ? 1 : 0; out[5] = (v.begin() != v.end()) ? 1 : 0; out[6] = (v.begin() < v.end()) ? 1 : 0;")
    cases = [dict({"z0": P.const(0)}, __name="empty leading extension", __signs={}, __z0=P.const(0))]
    if D >= 2:
        cases.append(dict({"z1": P.const(0), "z0": 1 + A("y0")}, __name="empty inner extension", __signs={"y0": NONNEG}, __z0=1 + A("y0")))

    def wants(case, env):
        z0 = case["__z0"]
        none = z0.is_zero()
        return {(0, "end-begin"): z0, (1, "begin==end"): P.const(1 if none else 0), (2, "const end-begin"): z0, (3, "size"): z0,
                (4, "begin+size==end"): P.const(1), (5, "begin!=end"): P.const(0 if none else 1), (6, "begin<end"): P.const(0 if none else 1)}
    cr.add("O02.iter.empty(D=%d)" % D, "O02.iter", D, [], body, wants, cases=cases)


def add_cursor(cr, D):
    """cursors (home()): indexing / call form / += of an index tuple designate the element at those offsets from the view's first element; the const
    cursor designates the same addresses; stride<k>() is the k-th stride (zero-based views)"""
    v = vs.root(D, True)
    idx = ["i%d" % k for k in range(D)]
    br = "".join("[%s]" % i for i in idx)
    call = "(%s)" % ", ".join(idx)
    body = ("auto c = v.home(); auto const cc = std::as_const(v).home(); "
            "out[0] = eaddr(c%s, base); out[1] = eaddr(c%s, base); out[2] = eaddr(cc%s, base); out[3] = eaddr(cc%s, base); "
            "{ auto d = c; typename decltype(d)::indices_type t{%s}; d += t; out[4] = eaddr(*d, base); out[5] = eaddr(*d.operator->(), base); out[6] = eaddr(*d.base(), base); } "
            "out[7] = eaddr(*c, base); "
            % (br, call, br, call, ", ".join(idx))
            + " ".join("out[%d] = c.template stride<%d>();" % (9 + k, k) for k in range(D)))
    at = v.addr([A(i) for i in idx]) * viewops.ELEM
    first = v.addr([P.const(0)] * D) * viewops.ELEM
    w = {(0, "home()[i]..."): at, (1, "home()(i...)"): at, (2, "const home()[i]..."): at, (3, "const home()(i...)"): at,
         (4, "*(home()+=tuple)"): at, (5, "(home()+=tuple)->"): at, (6, "(home()+=tuple).base()"): at, (7, "*home()"): first}
    for k in range(D):
        w[(9 + k, "stride<%d>" % k)] = v.dims[k].s
    cr.add("O02.cursor(D=%d)" % D, "O02.cursor", D, idx, body, w)
    if D >= 3:
        # partial call forms: a cursor of lower dimensionality, indexed / called further (every split of the index tuple in two)
        parts = []
        wp = {}
        for cut in range(1, D):
            head = "(%s)" % ", ".join(idx[:cut])
            tail_br = "".join("[%s]" % i for i in idx[cut:])
            tail_call = "(%s)" % ", ".join(idx[cut:])
            parts.append("out[%d] = eaddr(c%s%s, base); out[%d] = eaddr(c%s%s, base);" % (2 * cut, head, tail_br, 2 * cut + 1, head, tail_call))
            wp[(2 * cut, "home()%s%s" % (head, tail_br))] = at
            wp[(2 * cut + 1, "home()%s%s" % (head, tail_call))] = at
        cr.add("O02.cursor.partial(D=%d)" % D, "O02.cursor", D, idx, "auto c = v.home(); " + " ".join(parts), wp)


def digits(k, zs, fs):
    """canonical index tuple of linear position k (last index fastest), as the specification defines it"""
    out = []
    rem = k
    for i in range(len(zs)):
        inner = prod(zs[i + 1:])
        q = irval.sdiv(rem, inner, {}) if i + 1 < len(zs) else rem
        out.append(q + fs[i])
        rem = rem - q * inner
    return out


POSITION_ONLY = {"size", "end-begin", "(begin+k)-begin", "(begin+a)-=b:pos", "it=jt:pos", "it<it+b", "iterator==const_iterator", "it+b>it", "it<=it+b", "it+b>=it", "it<=it", "it>=it", "it>it", "it<it", "it!=it+b", "it==it+b", "it+b<it", "it+b<=it"}


def add_flat(cr, D, zb, fam="O02.flat", one_key=None):
    v = vs.root(D, zb)
    zs = [d.z for d in v.dims]
    fs = [d.f for d in v.dims]
    k = A("k")

    def at(pos):
        return v.addr(digits(pos, zs, fs)) * viewops.ELEM
    body = """
	auto&& es = v.elements();
	out[0] = eaddr(es[k], base); out[1] = eaddr(*(es.begin() + k), base); out[2] = eaddr(es.begin()[k], base);
	out[3] = es.size(); out[4] = es.end() - es.begin(); out[5] = (es.begin() + k) - es.begin();
	{ auto it = es.begin() + a; it -= b; out[6] = eaddr(*it, base); out[7] = it - es.begin(); }
	{ auto it = es.begin() + a; auto jt = es.begin() + b; it = jt; out[8] = eaddr(*it, base); out[9] = it - es.begin(); }
	{ auto it = es.begin() + a; auto jt = it - b; out[10] = eaddr(*jt, base); }
	{ auto it = es.begin() + a; out[11] = eaddr(it[b], base); out[12] = eaddr(*(it + b), base); }
	{ auto const& cv = v; out[13] = eaddr(cv.elements()[k], base); out[14] = eaddr(*(cv.elements().begin() + k), base); }
	out[15] = ((es.begin() + a) < (es.begin() + a + b)) ? 1 : 0;
	out[16] = ((std::as_const(v).elements().begin() + k) == (es.begin() + k)) ? 1 : 0;
	{ auto it = es.begin() + a; auto jt = it + b; out[17] = (jt > it) ? 1 : 0; out[18] = (it <= jt) ? 1 : 0; out[19] = (jt >= it) ? 1 : 0; out[20] = (it <= it) ? 1 : 0;
	  out[21] = (it >= it) ? 1 : 0; out[22] = (it > it) ? 1 : 0; out[23] = (it < it) ? 1 : 0; out[24] = (it != jt) ? 1 : 0; out[25] = (it == jt) ? 1 : 0; out[26] = (jt < it) ? 1 : 0; out[27] = (jt <= it) ? 1 : 0; }
"""
    a, b = A("a"), A("b")

    def wants(case, env):
        return wrap({
            (0, "elements()[k]"): at(k), (1, "*(begin+k)"): at(k), (2, "begin[k]"): at(k),
            (3, "size"): prod(zs), (4, "end-begin"): prod(zs), (5, "(begin+k)-begin"): k,
            (6, "(begin+a)-=b:deref"): at(a - b), (7, "(begin+a)-=b:pos"): a - b,
            (8, "it=jt:deref"): at(b), (9, "it=jt:pos"): b,
            (10, "(begin+a)-b:deref"): at(a - b),
            (11, "it[b]"): at(a + b), (12, "*(it+b)"): at(a + b),
            (13, "const elements()[k]"): at(k), (14, "const *(begin+k)"): at(k),
            (15, "it<it+b"): P.const(1),
            (16, "iterator==const_iterator"): P.const(1),
            (17, "it+b>it"): P.const(1), (18, "it<=it+b"): P.const(1), (19, "it+b>=it"): P.const(1), (20, "it<=it"): P.const(1), (21, "it>=it"): P.const(1),
            (22, "it>it"): P.const(0), (23, "it<it"): P.const(0), (24, "it!=it+b"): P.const(1), (25, "it==it+b"): P.const(0), (26, "it+b<it"): P.const(0),
            (27, "it+b<=it"): P.const(0),
        })

    def wrap(w):
        # with one_key every address obligation of this family is reported under one semantic identity (single root cause)
        if one_key is None:
            return w
        return {k: ((v_, one_key) if k[1] not in POSITION_ONLY else v_) for k, v_ in w.items()}
    cr.add("%s(D=%d)" % (fam, D), fam, D, ["k", "a", "b"], body, wants, signs={"b": POS})
    # assignment across ranges of the same static type but different extents (a sub-block of the same view), then movement: the assigned iterator
    # must walk with the extents of the range it was assigned from
    if D <= 2 and zb and one_key is None:
        hs = [A("h%d" % i) for i in range(D)]
        sub = "v.sliced(0, h0)" if D == 1 else "v({0, h0}, {0, h1})"
        body3 = ("auto&& w = %s; auto it = v.elements().begin() + a; auto jt = w.elements().begin() + b; it = jt; it += c; "
                 "out[0] = eaddr(*it, base); out[1] = it - w.elements().begin();" % sub)
        env3 = {"z%d" % i: A("h%d" % i) + A("r%d" % i) for i in range(D)}
        sg3 = {"h%d" % i: POS for i in range(D)}
        sg3.update({"r%d" % i: NONNEG for i in range(D)})

        def wants3(case, env_):
            def atw(pos):
                return v.subst(env3).addr(digits(pos, hs, [P.const(0)] * D)) * viewops.ELEM
            return {(0, "it=jt(other range)+c:deref"): atw(A("b") + A("c")), (1, "it=jt(other range)+c:pos"): A("b") + A("c")}
        cr.add("%s.xassign(D=%d)" % (fam, D), fam, D, ["a", "b", "c"] + ["h%d" % i for i in range(D)], body3, wants3, cases=[dict(env3, __signs=sg3)])
    # ++ / -- mixed with -= / [] / - at the end position: the end reached by ++ from the last element is the same position as end(), so
    # subtracting from it must land where subtracting from end() lands (the stepping operators and the jumping operators share one state)
    if D <= 2 and one_key is None:
        envz = {"z%d" % i: 1 + A("y%d" % i) for i in range(D)}
        sgz = {"y%d" % i: NONNEG for i in range(D)}
        sgz["b"] = POS
        size = prod([1 + A("y%d" % i) for i in range(D)])
        body4 = """
	auto&& es = v.elements();
	{ auto it = es.end(); --it; ++it; out[0] = it - es.begin(); out[1] = (it == es.end()) ? 1 : 0; it -= b; out[2] = eaddr(*it, base); out[3] = it - es.begin(); }
	{ auto it = es.end(); --it; ++it; out[4] = eaddr(it[0 - b], base); out[5] = eaddr(*(it - b), base); }
	{ auto it = es.end(); --it; out[6] = eaddr(*it, base); it += 1; it -= b; out[7] = eaddr(*it, base); }
"""

        def wants4(case, env_):
            def atz(pos):
                return v.subst(envz).addr(digits(pos, [1 + A("y%d" % i) for i in range(D)], fs)) * viewops.ELEM
            last = v.subst(envz).addr([f + A("y%d" % i) for i, f in enumerate(fs)]) * viewops.ELEM
            return {(0, "++(--end):pos"): size, (1, "++(--end)==end"): P.const(1), (2, "++(--end)-=b:deref"): atz(size - b), (3, "++(--end)-=b:pos"): size - b,
                    (4, "++(--end)[-b]"): atz(size - b), (5, "*(++(--end)-b)"): atz(size - b), (6, "*--end"): last, (7, "(--end)+=1-=b:deref"): atz(size - b)}
        cr.add("%s.endstep(D=%d)" % (fam, D), fam, D, ["b"], body4, wants4, cases=[dict(envz, __signs=sgz)])
    # the iterator's own ++ / -- (pre and post forms) at a position given by its digits, one case per carry / borrow pattern, followed by a jump:
    # decides that stepping moves the iterator's tuple with the iterator's extents and its linear position by exactly one (O02.canon decides the
    # successor function itself)
    if D <= 3 and one_key is None:
        for mode in ("next", "prev"):
            for pat in itertools.product([False, True], repeat=D):
                if mode == "prev" and all(pat):
                    continue            # position 0: --begin() leaves the range
                envs, sg, dg, zz = {}, {"b": POS}, [], []
                for i in range(D):
                    if mode == "next":
                        if pat[i]:      # digit at its maximum
                            envs["z%d" % i] = 1 + A("y%d" % i)
                            dg.append(A("y%d" % i))
                            sg["y%d" % i] = NONNEG
                        else:
                            envs["z%d" % i] = A("d%d" % i) + 2 + A("t%d" % i)
                            dg.append(A("d%d" % i))
                            sg["d%d" % i] = NONNEG
                            sg["t%d" % i] = NONNEG
                    else:
                        if pat[i]:      # digit at its minimum
                            envs["z%d" % i] = 1 + A("y%d" % i)
                            dg.append(P.const(0))
                            sg["y%d" % i] = NONNEG
                        else:
                            envs["z%d" % i] = 2 + A("u%d" % i) + A("t%d" % i)
                            dg.append(1 + A("u%d" % i))
                            sg["u%d" % i] = NONNEG
                            sg["t%d" % i] = NONNEG
                    zz.append(envs["z%d" % i])
                pos = P.const(0)
                for i in range(D):
                    pos = pos + dg[i] * prod(zz[i + 1:])
                envs["a"] = pos
                vsub = v.subst(envs)
                step = 1 if mode == "next" else -1
                op_pre, op_post = ("++it", "jt++") if mode == "next" else ("--it", "jt--")
                at_end = mode == "next" and all(pat)

                def atp(p_, vsub=vsub, zz=zz):
                    return vsub.addr(digits(p_, zz, fs)) * viewops.ELEM
                # the expected digits after the step, written out per pattern (not through a division)
                res, carry = [None] * D, True
                for i in reversed(range(D)):
                    if carry and pat[i]:
                        res[i] = (P.const(0) if mode == "next" else zz[i] - 1)
                    elif carry:
                        res[i] = dg[i] + step
                        carry = False
                    else:
                        res[i] = dg[i]
                stepped = vsub.addr([r_ + f for r_, f in zip(res, fs)]) * viewops.ELEM
                if at_end:
                    bodys = ("auto&& es = v.elements(); auto it = es.begin() + a; %s; out[0] = it - es.begin(); out[1] = (it == es.end()) ? 1 : 0; "
                             "out[2] = eaddr(*(it - b), base); { auto jt = es.begin() + a; %s; out[3] = (jt == es.end()) ? 1 : 0; out[4] = eaddr(jt[0 - b], base); }"
                             % (op_pre, op_post))
                    w = {(0, "pos"): pos + 1, (1, "==end"): P.const(1), (2, "*(it-b)"): atp(pos + 1 - b), (3, "post:==end"): P.const(1),
                         (4, "post:it[-b]"): atp(pos + 1 - b)}
                else:
                    bodys = ("auto&& es = v.elements(); auto it = es.begin() + a; %s; out[0] = eaddr(*it, base); out[1] = it - es.begin(); "
                             "out[2] = eaddr(*(it - b), base); out[3] = eaddr(it[b], base); "
                             "{ auto jt = es.begin() + a; %s; out[4] = eaddr(*jt, base); out[5] = jt - es.begin(); jt += b; out[6] = eaddr(*jt, base); }"
                             % (op_pre, op_post))
                    w = {(0, "deref"): stepped, (1, "pos"): pos + step, (2, "*(it-b)"): atp(pos + step - b), (3, "it[b]"): atp(pos + step + b),
                         (4, "post:deref"): stepped, (5, "post:pos"): pos + step, (6, "post:+=b"): atp(pos + step + b)}
                name = ("atmax=" if mode == "next" else "atmin=") + "".join("1" if p_ else "0" for p_ in pat)
                cr.add("%s.step.%s(D=%d)" % (fam, mode, D), fam, D, ["a", "b"], bodys, w, cases=[dict(envs, __signs=sg, __name=name)])
    # front / back with sizes z = 1 + y (so that z-1 >= 0 is visible to the sign analysis)
    body2 = "auto&& es = v.elements(); out[0] = eaddr(es.front(), base); out[1] = eaddr(es.back(), base); out[2] = eaddr(*es.begin(), base);"
    env = {"z%d" % i: 1 + A("y%d" % i) for i in range(D)}

    def wants2(case, env_):
        first = v.addr(fs) * viewops.ELEM
        last = v.addr([f + z - 1 for f, z in zip(fs, zs)]) * viewops.ELEM
        if one_key is not None:
            return wrap({(0, "front"): first, (2, "*begin"): first})
        return {(0, "front"): first, (1, "back"): last, (2, "*begin"): first}
    if D <= 2:   # for D=3 the element range object is not scalar-replaced by the optimiser (alloca remains): not evaluated
        cr.add("%s.ends(D=%d)" % (fam, D), fam, D, [], body2, wants2, cases=[dict(env, __signs={"y%d" % i: NONNEG for i in range(D)})])


def add_flat_empty(cr, D, fam="O02.flat"):
    """zero-size corners: a view with a zero extent in one dimension (and non-zero extents elsewhere) has an empty flat range that can be formed,
    measured, compared and moved by 0 without a trap.  The index arithmetic divides by sub-extent element counts; the optimiser may fold a division
    by a value it can prove zero (undefined behaviour), so this family is compiled with the front end's division check
    (-fsanitize=integer-divide-by-zero -fsanitize-trap): the check survives as a branch to a trap, which the evaluation reports."""
    v = vs.root(D, True)
    for zd in range(D):
        envz0 = {"z%d" % zd: P.const(0)}
        envz0.update({"z%d" % i: 1 + A("y%d" % i) for i in range(D) if i != zd})
        body5 = ("auto&& es = v.elements(); out[0] = es.size(); out[1] = es.end() - es.begin(); out[2] = (es.begin() == es.end()) ? 1 : 0; "
                 "{ auto it = es.begin(); it += 0; out[3] = it - es.begin(); auto jt = es.end(); jt -= 0; out[4] = es.end() - jt; } "
                 "{ auto const& cv = v; out[5] = cv.elements().size(); out[6] = (cv.elements().begin() == cv.elements().end()) ? 1 : 0; }")
        cr.add("%s.empty(D=%d,zero extent in dimension %d)" % (fam, D, zd), fam, D, [], body5,
               {(0, "size"): P.const(0), (1, "end-begin"): P.const(0), (2, "begin==end"): P.const(1), (3, "(begin+=0)-begin"): P.const(0),
                (4, "end-(end-=0)"): P.const(0), (5, "const size"): P.const(0), (6, "const begin==end"): P.const(1)},
               cases=[dict(envz0, __signs={"y%d" % i: NONNEG for i in range(D)})])


def add_canon(cr, D):
    """extensions_t<D>::next_canonical / prev_canonical / to_linear / from_linear on symbolic digits, all carry patterns"""
    exts = ", ".join("multi::iextension{f%d, f%d + z%d}" % (i, i, i) for i in range(D))
    dargs = ["f%d" % i for i in range(D)] + ["z%d" % i for i in range(D)] + ["d%d" % i for i in range(D)]
    idx = ", ".join("i%d" % i for i in range(D))
    decl = " ".join("multi::index i%d = f%d + d%d;" % (i, i, i) for i in range(D))
    store = " ".join("out[%d] = i%d;" % (i, i) for i in range(D))
    store2 = " ".join("out[%d] = i%d;" % (D + 1 + i, i) for i in range(D))
    body = ("multi::extensions_t<%d> xs{%s}; %s bool c = xs.next_canonical(%s); %s out[%d] = c ? 1 : 0; "
            "{ %s bool c2 = xs.prev_canonical(%s); %s out[%d] = c2 ? 1 : 0; }" % (D, exts, decl, idx, store, D, decl, idx, store2, 2 * D + 1))
    cases = []
    for pat in itertools.product([False, True], repeat=D):      # pat[i]: digit i is at its maximum (for next) / minimum (for prev)
        env, signs = {}, {}
        for i in range(D):
            if pat[i]:
                env["d%d" % i] = A("z%d" % i) - 1          # at max
            else:
                env["z%d" % i] = A("d%d" % i) + 2 + A("t%d" % i)   # d < z-1
                signs["t%d" % i] = NONNEG
            signs["d%d" % i] = NONNEG
        cases.append(dict(env, __signs=signs, __name="atmax=" + "".join("1" if p else "0" for p in pat), __pat=pat, __mode="next"))
    f = [A("f%d" % i) for i in range(D)]
    d = [A("d%d" % i) for i in range(D)]
    z = [A("z%d" % i) for i in range(D)]

    def wants(case, env):
        pat = case["__pat"]
        w = {}
        # successor: increment last digit with carries
        carry = True
        res = [None] * D
        for i in reversed(range(D)):
            if carry:
                if pat[i]:
                    res[i] = f[i]
                    carry = True
                else:
                    res[i] = f[i] + d[i] + 1
                    carry = False
            else:
                res[i] = f[i] + d[i]
        for i in range(D):
            w[(i, "next.i%d" % i)] = res[i]
        w[(D, "next.wrapped")] = P.const(1 if carry else 0)
        return w
    cr.add("O02.canon.next(D=%d)" % D, "O02.canon", D, dargs, body, wants, cases=cases, view=False)
    # predecessor: digit at minimum (d=0) or above
    cases2 = []
    for pat in itertools.product([False, True], repeat=D):
        env, signs = {}, {}
        for i in range(D):
            if pat[i]:
                env["d%d" % i] = P.const(0)
            else:
                env["d%d" % i] = 1 + A("u%d" % i)
                signs["u%d" % i] = NONNEG
            env["z%d" % i] = (P.const(0) if pat[i] else 1 + A("u%d" % i)) + 1 + A("t%d" % i)
            signs["t%d" % i] = NONNEG
        cases2.append(dict(env, __signs=signs, __name="atmin=" + "".join("1" if p else "0" for p in pat), __pat=pat))

    def wants2(case, env):
        pat = case["__pat"]
        w = {}
        borrow = True
        res = [None] * D
        for i in reversed(range(D)):
            if borrow:
                if pat[i]:
                    res[i] = f[i] + z[i] - 1
                    borrow = True
                else:
                    res[i] = f[i] + d[i] - 1
                    borrow = False
            else:
                res[i] = f[i] + d[i]
        for i in range(D):
            w[(D + 1 + i, "prev.i%d" % i)] = res[i]
        w[(2 * D + 1, "prev.wrapped")] = P.const(1 if borrow else 0)
        return w
    cr.add("O02.canon.prev(D=%d)" % D, "O02.canon", D, dargs, body, wants2, cases=cases2, view=False)
    # to_linear(from_linear(k)) == k and to_linear of a digit tuple
    dd = ", ".join("d%d" % i for i in range(D))
    body3 = ("multi::extensions_t<%d> xs{%s}; auto t = xs.from_linear(k); out[0] = std::apply(xs, t); out[1] = xs.to_linear(%s); out[2] = xs.num_elements();"
             % (D, exts, dd))
    lin = P.const(0)
    for i in range(D):
        lin = lin + d[i] * prod(z[i + 1:])
    cr.add("O02.canon.linear(D=%d)" % D, "O02.canon", D, dargs + ["k"], body3,
           {(0, "to_linear(from_linear(k))"): A("k"), (1, "to_linear(d)"): lin, (2, "num_elements"): prod(z)}, view=False,
           signs={"z%d" % i: POS for i in range(D)})


# ---------------------------------------------------------------------------------------------------------------
W02 = r"""
#include <boost/multi/array.hpp>
#include <iterator>
#include <type_traits>
namespace multi = boost::multi;
template<class It, class Ref> constexpr bool iter_contract() {
	using tr = std::iterator_traits<It>;
	static_assert(std::is_base_of_v<std::random_access_iterator_tag, typename tr::iterator_category>, "W02 category");
	static_assert(std::is_same_v<decltype(std::declval<It>() + 1), It>, "W02 it+n type");
	static_assert(std::is_same_v<decltype(std::declval<It&>() += 1), It&>, "W02 it+=n type");
	static_assert(std::is_integral_v<decltype(std::declval<It>() - std::declval<It>())>, "W02 it-jt type");
	static_assert(std::is_same_v<decltype(std::declval<It>() - std::declval<It>()), typename tr::difference_type>, "W02 difference_type");
	static_assert(std::is_same_v<decltype(*std::declval<It>()), Ref>, "W02 *it type");
	static_assert(std::is_same_v<decltype(std::declval<It>()[1]), Ref>, "W02 it[n] type");
	static_assert(std::is_convertible_v<decltype(std::declval<It>() == std::declval<It>()), bool>, "W02 ==");
	static_assert(std::is_convertible_v<decltype(std::declval<It>() < std::declval<It>()), bool>, "W02 <");
	static_assert(std::is_copy_constructible_v<It> && std::is_copy_assignable_v<It> && std::is_default_constructible_v<It>, "W02 regular");
	return true;
}
template<int D> constexpr bool dim() {
	using Arr = multi::array<int, D>;
	using it  = typename Arr::iterator;
	using cit = typename Arr::const_iterator;
	static_assert(iter_contract<it,  decltype(*std::declval<Arr&>().begin())>(), "");
	static_assert(iter_contract<cit, decltype(*std::declval<Arr const&>().begin())>(), "");
	static_assert(std::is_same_v<decltype(std::declval<Arr&>().begin()), it>, "W02 begin type");
	static_assert(std::is_same_v<decltype(std::declval<Arr const&>().begin()), cit>, "W02 cbegin type");
	static_assert(std::is_convertible_v<it, cit>, "W02 iterator -> const_iterator");
	static_assert(!std::is_convertible_v<cit, it>, "W02 const_iterator -/-> iterator");
	static_assert(std::is_convertible_v<decltype(std::declval<it>() == std::declval<cit>()), bool>, "W02 it==cit");
	using eit  = decltype(std::declval<Arr&>()().elements().begin());
	using ecit = decltype(std::declval<Arr const&>()().elements().begin());
	static_assert(iter_contract<eit,  int&>(), "");
	static_assert(iter_contract<ecit, int const&>(), "");
	static_assert(std::is_convertible_v<eit, ecit>, "W02 elements iterator -> const");
	return true;
}
static_assert(dim<1>() && dim<2>() && dim<3>(), "");
"""


def w02(rep, wd):
    tu = os.path.join(wd, "w02.cpp")
    with open(tu, "w") as fh:
        fh.write(W02)
    rc, diags, raw = witness.compile_tu(tu)
    errs = witness.group_errors(diags)
    names = sorted(set(re.findall(r'"(W02 [^"]+)"', W02)))
    failed = {}
    for e, notes in errs:
        m = re.search(r'"(W02 [^"]+)"', e["msg"])
        inst = ""
        for n in notes:
            mm = re.search(r"'(iter_contract<[^']*>|dim<\d>)'", n["msg"])
            if mm:
                inst = mm.group(1)
                break
        if m:
            failed.setdefault(m.group(1), []).append(inst)
        elif "static_assert" not in e["msg"]:
            failed.setdefault("W02 witness TU error: " + e["msg"][:120], []).append(inst)
    for nm in names:
        if nm in failed:
            rep.violated("W02:" + nm[4:], "W02", "iterator type contract violated: %s in %s" % (nm, failed[nm][:3]), dict(instances=failed[nm]))
        else:
            rep.ok("W02:" + nm[4:], "W02", None)
    for nm in failed:
        if nm not in names:
            rep.violated("W02:" + nm, "W02", nm, dict(instances=failed[nm]))
    rep.units.add("w02.cpp")


def run(tier):
    rep = common.Report("C02", tier, "proof",
                        "one obligation per (law, iterator kind, D, sign case of n) resp. (flat-range law, D) resp. (carry pattern, D); each an identity "
                        "between closed forms of the optimised library code on a symbolic view and the specification; non-trivial = expected form not constant")
    wd = common.workdir("c02")
    maxd = 4 if tier == "thorough" else 3
    kinds = ["mutable", "const", "move", "moved", "transformed"] if tier == "thorough" else ["mutable", "const", "moved", "transformed"]
    for zb, tag in ((True, "zb"), (False, "fb")):
        cr = viewops.CustomRun(rep, "C02", zb, wd, tag)
        for D in range(1, maxd + 1):
            for kind in kinds:
                add_iter(cr, D, zb, kind)
            add_iter_empty(cr, D, zb)
        for D in range(1, (3 if tier == "thorough" else 2) + 1):
            if zb:
                add_flat(cr, D, zb)
        if zb:
            for D in range(1, maxd + 1):
                add_cursor(cr, D)
        cr.compile(nshards=8, extra_prelude=EXTRA)
        cr.check()
    cr = viewops.CustomRun(rep, "C02", True, wd, "empty")
    for D in range(2, (3 if tier == "thorough" else 2) + 1):
        add_flat_empty(cr, D)
    cr.compile(nshards=2, defines=("-DNDEBUG", "-fsanitize=integer-divide-by-zero", "-fsanitize-trap=integer-divide-by-zero"), extra_prelude=EXTRA)
    cr.check()
    cr = viewops.CustomRun(rep, "C02", True, wd, "canon")
    for D in range(1, maxd + 1):
        add_canon(cr, D)
    cr.compile(nshards=4, extra_prelude=EXTRA)
    cr.check()
    w02(rep, wd)
    rep.need_instances("O02 obligations generated", len(rep.obligations), 500 if tier == "quick" else 900)
    rep.trusted = ["clang 14 IR generation and -O2 pipeline (normaliser)", "vlib/viewspec.py + the law tables in checks/c02.py",
                   "vlib/poly.py + vlib/irval.py", "clang front end for W02"]
    rep.assumptions = ["flat-range laws are decided for zero-based views here; the same family with free index bases runs under C19",
                       "the successor / predecessor function of the flat iterator is decided by O02.canon on extensions_t, its use by the iterator by O02.flat.step"]
    return rep

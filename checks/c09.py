"""C09 — failures (allocation or element exceptions) leave no leak and valid arrays (engine A, exceptional paths).

R09.throwstate  at every exceptional exit of every constructor / assignment / mutator (one path per may-throw event: the allocation, each
                element construction / assignment primitive) the typestate automaton must hold: every live array satisfies INV (so that
                its destructor is safe), a failed constructor leaves no block behind, no block is unowned (leak) or owned twice.
R09.noexcept    no noexcept function / region invokes something that may throw (would be std::terminate instead of reaching the caller).
R09.rollback    every construct-in-a-loop helper catches everything, destroys the constructed prefix and rethrows.
R09.noalloc     same-extent assignment, assignment through views, swap and move of resizable arrays have no allocation event.
"""
import re

from vlib import common, ownrules, typestate


def run(tier):
    rep = common.Report("C09", tier, "other",
                        "one obligation per (operation, exceptional path = one throwing event, D) plus one per noexcept function, per rollback helper and "
                        "per no-allocation operation; distinct = distinct (operation, throwing event, D)")
    wd = common.workdir("own")
    dims = (1, 2) if tier == "quick" else (1, 2, 3)
    nhelpers = 0
    for D in dims:
        mod = ownrules.module(wd, D)
        res = ownrules.analyse(mod, rep)
        tag = "D=%d" % D
        ownrules.typestate_obligations(rep, mod, res, "exceptional", tag)
        # R09.noexcept
        sites = ownrules.noexcept_sites(mod)
        for fn, callees in sorted(sites.items()):
            rep.violated("R09.noexcept@%s" % fn, "R09.noexcept", "%s is noexcept but calls %s which may throw (an element or allocator exception becomes std::terminate)" % (fn, sorted(callees)[0][:100]),
                         dict(function=fn, may_throw_callees=sorted(callees)))
        # the same scan with an element type whose moves are noexcept and whose copies may throw (std::string-like): conditional noexcept
        # specifications that consult the wrong trait only show up for such a type
        mod2 = ownrules.module(wd, D, prelude="#define TRACKED_NOTHROW_MOVE 1", tag="D%d_ntm" % D)
        sites2 = ownrules.noexcept_sites(mod2)
        for fn, callees in sorted(sites2.items()):
            if fn in sites:
                continue
            rep.violated("R09.noexcept@%s" % fn, "R09.noexcept", "%s is noexcept for an element type with noexcept moves and throwing copies, but calls %s which may throw "
                         "(the exception becomes std::terminate)" % (fn, sorted(callees)[0][:100]), dict(function=fn, may_throw_callees=sorted(callees), element="nothrow-move"))
        rep.ok("R09.noexcept.scan(nothrow-move element)#%s" % tag, "R09.noexcept", dict(with_terminate_sites=len(sites2)))
        # and with an element type all of whose own special members are noexcept while conversion / assignment from another element type may throw:
        # conditional noexcept specifications of the cross-element-type overloads that consult the traits of T alone show up only here
        mod3 = ownrules.module(wd, D, prelude="#define TRACKED_NOTHROW_OWN 1", tag="D%d_nto" % D)
        sites3 = ownrules.noexcept_sites(mod3, full=True)
        nx = 0
        from vlib import absint as _absint
        for fn_full, callees in sorted(sites3.items()):
            # only instantiations that involve the other element type: the same-type ones are the subject of the two scans above
            elem = sorted(_absint.short(c) for c in callees if "Other" in c) or (sorted(_absint.short(c) for c in callees) if "Other" in fn_full else [])
            if not elem:
                continue
            fn = _absint.short(fn_full) + " [from another element type]"
            nx += 1
            rep.violated("R09.noexcept@%s" % fn, "R09.noexcept", "%s is noexcept for an element type whose own operations are noexcept, but converts / assigns elements of another "
                         "type through %s, which may throw (the exception becomes std::terminate)" % (fn, elem[0][:100]), dict(function=fn, may_throw_callees=elem, element="nothrow-own"))
        cross = [f for f in mod3.mod.funcs.values() if re.search(r"Tracked::(Tracked|operator=)\(Other", f.demangled)]
        rep.ok("R09.noexcept.scan(cross-type element)#%s" % tag, "R09.noexcept", dict(with_terminate_sites=nx, cross_type_element_operations=len(cross)))
        if not any(re.search(r"Tracked::operator=\(Other", mod3.mod.demangled.get(i.callee, "")) for f in mod3.mod.funcs.values() for b in f.blocks.values() for i in b if i.op in ("call", "invoke") and i.callee):
            rep.break_("R09.noexcept (cross-type element, %s): no cross-type element assignment is instantiated by the driver" % tag)
        checked = [f for f in mod.mod.funcs.values() if "boost::multi" in f.demangled]
        rep.ok("R09.noexcept.scan#%s" % tag, "R09.noexcept", dict(functions_scanned=len(checked), with_terminate_sites=len(sites)))
        nhelpers += ownrules.rollback_rule(rep, mod, tag)
        if D == 1:
            nexact = ownrules.rollback_exact(rep, mod, tag, "R09", 3 if tier == "quick" else 5)
        # R09.noalloc
        for n in ("sassign_copy", "sassign_move", "sassign_view", "swap_member", "swap_free", "sswap_free", "assign_move", "view_assign_view", "view_assign_array",
                  "view_move_assign", "view_swap", "view_elements_assign", "array_paren_assign", "ref_assign_ref", "view_fill", "row_assign_row"):
            if n not in res:
                continue
            key = "R09.noalloc@%s" % n
            bad = [r for r in res[n] if any(e[0] == "alloc" for e in r["events"])]
            if bad:
                rep.violated(key, "R09.noalloc", "%s (%s) allocates although it needs no new storage" % (mod.ops[n]["body"], tag), dict(op=n))
            else:
                rep.ok(key + "#" + tag, "R09.noalloc", None)
        if "assign_iters" in res:
            # a.assign(first, last) with a range of as many sub-views as the array has (equal leading size) is an in-place element assignment:
            # the no-allocation path must be guarded by distance(first, last) == size() — the leading size, which is what a range of sub-views has
            key = "R09.noalloc@assign_iters(same size)"
            good = False
            for r in res["assign_iters"]:
                if r["outcome"] != "ret" or any(e[0] in ("alloc", "dealloc", "construct", "destroy") for e in r["events"]):
                    continue
                for c, v in r["pc"].items():
                    sc = repr(typestate.strip(c))
                    if v and "adl_distance" in sc and (("layout_t::size() const" in sc and "num_elements" not in sc) or (D == 1 and "num_elements" in sc)):
                        good = True       # for D = 1 the leading size is the element count
            if good:
                rep.ok(key + "#" + tag, "R09.noalloc", None)
            else:
                rep.violated(key, "R09.noalloc", "a.assign(first, last) (%s): no storage-free path is taken when the range has as many items as the array's leading size "
                             "(the in-place path is guarded by something else than distance(first, last) == size())" % tag, dict())
        for nview in ("assign_view", "assign_cview", "assign_other_alloc_array"):
            # assignment from a view / an array of another type with the array's own extents is an element-wise assignment into the existing storage
            if nview not in res:
                continue
            key = "R09.noalloc@%s(same extents)" % nview
            bad = []
            for r in res[nview]:
                eq = [v for c, v in r["pc"].items() if re.search(r"operator==\(extensions_t const&(, extensions_t const&)?\)|extensions_t::operator==", repr(c))]
                if eq and eq[0] and any(e[0] == "alloc" for e in r["events"]):
                    bad.append(r)
            if bad:
                rep.violated(key, "R09.noalloc", "%s with equal extents allocates (%s): an operation that needs no new storage can now fail, and pointers into the array are invalidated"
                             % (mod.ops[nview]["body"], tag), dict())
            else:
                rep.ok(key + "#" + tag, "R09.noalloc", None)
        if "assign_copy" in res:
            key = "R09.noalloc@assign_copy(same extents)"
            bad = []
            for r in res["assign_copy"]:
                eq = [v for c, v in r["pc"].items() if re.search(r"operator==\(extensions_t const&(, extensions_t const&)?\)", repr(c))]
                if eq and eq[0] and any(e[0] == "alloc" for e in r["events"]):
                    bad.append(r)
            if bad:
                rep.violated(key, "R09.noalloc", "a = b with equal extents allocates (%s)" % tag, dict())
            else:
                rep.ok(key + "#" + tag, "R09.noalloc", None)
    rep.need_instances("R09.throwstate exceptional paths", sum(1 for o in rep.obligations if o["family"] in ("R09.throwstate",)), 100 * len(dims))
    rep.need_instances("R09.rollback helpers", nhelpers, 6 * len(dims))
    rep.need_instances("R09.exact helpers interpreted with unrolled loops", nexact, 9)
    rep.explanation = ("Same abstract interpretation as C08, following the exception edges of the unoptimised IR (invoke / landingpad / resume, calls that "
                       "propagate): every may-throw event (allocator allocate, each adl_* element primitive, external element / allocator members) forks one "
                       "exceptional path; the typestate automaton is evaluated at the point where the exception leaves the operation. This covers every "
                       "single injection point of every operation, not the handful a fault-injection test samples.")
    rep.trusted = ["clang 14 -O0 IR generation (exception edges) + mem2reg", "vlib/absint.py, vlib/typestate.py", "primitive table in vlib/absint.py",
                   "may-throw = declared exception specifications of the external element / allocator members (Tracked: all noexcept(false); ObsAlloc::allocate may throw, deallocate noexcept)"]
    rep.assumptions = ["an element primitive that throws has rolled back its own partial work (R09.rollback checks exactly that structurally)"]
    return rep

# setup: builds the libTooling fact extractor (engine A) if its source is present; everything else is Python + clang at check time
.PHONY: setup
setup:
	mkdir -p build
	@if [ -f tools/mfacts.cc ]; then \
	  clang++ $$(llvm-config-14 --cxxflags) -fno-rtti -O1 tools/mfacts.cc -o build/mfacts /usr/lib/llvm-14/lib/libclang-cpp.so.14 /usr/lib/llvm-14/lib/libLLVM-14.so ; \
	fi
	@echo setup done
